package main

// C17 — tag, enumeration and bit-mask names form a stable bijection.
//
// The driver
//   - takes the LIVE registry (verif exports) and evaluates the property statement on it and on the
//     implementation's readers/writers directly (oracle): forward/reverse maps mutually inverse, name
//     hygiene, XML / JSON / text round trips of every registered entry and of unregistered numbers,
//     MarshalText/UnmarshalText of every registered enum and mask Go type, live registry = pinned
//     snapshot (coq/theories/PinnedRegistry.v read back), every name in the OASIS vectors known to
//     the pinned snapshot;
//   - records what the implementation's call-level functions return (TagString, Encoder.Enum/Bitmask in
//     the XML, JSON and text writers, Decoder.Tag/Enum/Bitmask of the XML and JSON readers,
//     MarshalText/UnmarshalText) on every entry and on unregistered numbers / strings, as rows of
//     cases_C17.v, where the Gallina model (RegModel.v, instantiated at gen/Registry.v) is evaluated on
//     the same inputs.

import (
	"sync"
	"bytes"
	"encoding"
	"encoding/json"
	"encoding/xml"
	"fmt"
	"os"
	"path/filepath"
	"reflect"
	"sort"
	"strconv"
	"strings"

	"github.com/ovh/kmip-go/ttlv"

	"verifharness/internal/h"
	"verifharness/internal/reg"
)

func init() { h.Register("C17", driveC17) }

// ---------------------------------------------------------------- printing for Coq

// c17Str prints a Go string as a model string: (s2b "...") when it is printable ASCII, else a byte list.
func c17Str(s string) string {
	for i := 0; i < len(s); i++ {
		if s[i] < 0x20 || s[i] > 0x7e {
			return h.Str(s)
		}
	}
	return `(s2b "` + strings.ReplaceAll(s, `"`, `""`) + `")`
}

func c17OptStr(s *string) string {
	if s == nil {
		return "None"
	}
	return "(Some " + c17Str(*s) + ")"
}

// c17res is the projected outcome of a reader call: ok+number, error, or panic.
type c17res struct {
	Ok    bool   `json:"ok"`
	Val   int64  `json:"val"`
	Panic string `json:"panic,omitempty"`
}

func (r c17res) coq() string {
	switch {
	case r.Panic != "":
		return "Panic"
	case r.Ok:
		return "(Ok " + h.Z(r.Val) + ")"
	}
	return "Err"
}

func (r c17res) String() string {
	switch {
	case r.Panic != "":
		return "panic(" + r.Panic + ")"
	case r.Ok:
		return fmt.Sprintf("ok(%d)", r.Val)
	}
	return "error"
}

func c17call(f func() (int64, error)) (r c17res) {
	defer func() {
		if p := recover(); p != nil {
			r = c17res{Panic: fmt.Sprint(p)}
		}
	}()
	v, err := f()
	if err != nil {
		return c17res{}
	}
	return c17res{Ok: true, Val: v}
}

// c17wr is the projected outcome of a writer call: the strings written, or a panic.
type c17wr struct {
	Name  string  // XML element name
	Attr  *string // XML tag attribute
	Val   string  // value attribute / JSON value string / text value
	Tag   string  // JSON / text tag string
	Panic string
}

// ---------------------------------------------------------------- implementation access (call level)

type c17form int

const (
	fXML c17form = iota
	fJSON
	fText
)

var c17formName = []string{"xml", "json", "text"}

func c17enc(form c17form) ttlv.Encoder {
	switch form {
	case fXML:
		return ttlv.NewXMLEncoder()
	case fJSON:
		return ttlv.NewJSONEncoder()
	}
	return ttlv.NewTextEncoder()
}

// c17write runs one writer call and picks the written strings out of the produced document.
func c17write(form c17form, typeName string, f func(e *ttlv.Encoder)) (w c17wr) {
	defer func() {
		if p := recover(); p != nil {
			w = c17wr{Panic: fmt.Sprint(p)}
		}
	}()
	enc := c17enc(form)
	f(&enc)
	out := enc.Bytes()
	switch form {
	case fXML:
		d := xml.NewDecoder(bytes.NewReader(out))
		for {
			tok, err := d.Token()
			if err != nil {
				return c17wr{Panic: "unparsable XML output: " + string(out)}
			}
			if se, ok := tok.(xml.StartElement); ok {
				w.Name = se.Name.Local
				for _, a := range se.Attr {
					switch a.Name.Local {
					case "tag":
						v := a.Value
						w.Attr = &v
					case "value":
						w.Val = a.Value
					}
				}
				return w
			}
		}
	case fJSON:
		var m map[string]any
		if err := json.Unmarshal(out, &m); err != nil {
			return c17wr{Panic: "unparsable JSON output: " + string(out)}
		}
		w.Tag, _ = m["tag"].(string)
		switch v := m["value"].(type) {
		case string:
			w.Val = v
		default:
			w.Val = fmt.Sprint(v)
		}
		return w
	default:
		s := string(out)
		mark := " (" + typeName + "): "
		i := strings.Index(s, mark)
		if i < 0 {
			return c17wr{Panic: "unexpected text output: " + s}
		}
		w.Tag = s[:i]
		w.Val = s[i+len(mark):]
		return w
	}
}

func c17xmlAttrEsc(s string) string {
	var b bytes.Buffer
	_ = xml.EscapeText(&b, []byte(s))
	return b.String()
}

// c17xmlDoc builds a one-element document; the tag is given in hex form unless elemName is set.
func c17xmlDoc(elemName string, tagAttr *string, typ, value string) []byte {
	var sb strings.Builder
	sb.WriteString("<" + elemName)
	if tagAttr != nil {
		sb.WriteString(` tag="` + c17xmlAttrEsc(*tagAttr) + `"`)
	}
	if typ != "" {
		sb.WriteString(` type="` + typ + `"`)
	}
	sb.WriteString(` value="` + c17xmlAttrEsc(value) + `"/>`)
	return []byte(sb.String())
}

func c17hexTag(tag int64) string { return fmt.Sprintf("0x%06X", uint64(tag)) }

func c17jsonDoc(tag string, typ string, value any) []byte {
	m := map[string]any{"tag": tag, "value": value}
	if typ != "" {
		m["type"] = typ
	}
	b, _ := json.Marshal(m)
	return b
}

func c17dec(form c17form, doc []byte) (ttlv.Decoder, error) {
	if form == fXML {
		return ttlv.NewXMLDecoder(doc)
	}
	return ttlv.NewJSONDecoder(doc)
}

// jval: a JSON value handed to the reader: string or integral number.
type c17jval struct {
	IsNum bool   `json:"is_num"`
	Num   int64  `json:"num"`
	Str   string `json:"str"`
}

func (v c17jval) coq() string {
	if v.IsNum {
		return "(JNum " + h.Z(v.Num) + ")"
	}
	return "(JStr " + c17Str(v.Str) + ")"
}
func (v c17jval) any() any {
	if v.IsNum {
		return v.Num
	}
	return v.Str
}

// c17readEnum: Decoder.Enum(realtag, tag) on a single item carrying `val`.
func c17readEnum(form c17form, realtag, tag int64, val c17jval) c17res {
	return c17call(func() (int64, error) {
		var doc []byte
		ht := c17hexTag(tag)
		if form == fXML {
			doc = c17xmlDoc("TTLV", &ht, "Enumeration", val.Str)
		} else {
			doc = c17jsonDoc(ht, "Enumeration", val.any())
		}
		d, err := c17dec(form, doc)
		if err != nil {
			return 0, err
		}
		v, err := d.Enum(int(realtag), int(tag))
		return int64(v), err
	})
}

// c17readMask: Decoder.Bitmask(realtag, tag) on a single item carrying `val`.
func c17readMask(form c17form, realtag, tag int64, val c17jval) c17res {
	return c17call(func() (int64, error) {
		var doc []byte
		ht := c17hexTag(tag)
		if form == fXML {
			doc = c17xmlDoc("TTLV", &ht, "Integer", val.Str)
		} else {
			doc = c17jsonDoc(ht, "Integer", val.any())
		}
		d, err := c17dec(form, doc)
		if err != nil {
			return 0, err
		}
		v, err := d.Bitmask(int(realtag), int(tag))
		return int64(v), err
	})
}

// c17readTag: Decoder.Tag() of a single item whose tag is spelled (elemName, tagAttr) / raw.
func c17readTagXML(elemName string, tagAttr *string) c17res {
	return c17call(func() (int64, error) {
		d, err := ttlv.NewXMLDecoder(c17xmlDoc(elemName, tagAttr, "Integer", "1"))
		if err != nil {
			return 0, err
		}
		return int64(d.Tag()), nil
	})
}

func c17readTagJSON(raw string) c17res {
	return c17call(func() (int64, error) {
		d, err := ttlv.NewJSONDecoder(c17jsonDoc(raw, "Integer", 1))
		if err != nil {
			return 0, err
		}
		return int64(d.Tag()), nil
	})
}

func c17validXMLName(s string) bool {
	if s == "" {
		return false
	}
	for i := 0; i < len(s); i++ {
		c := s[i]
		letter := c >= 'A' && c <= 'Z' || c >= 'a' && c <= 'z' || c == '_'
		if i == 0 && !letter {
			return false
		}
		if !(letter || c >= '0' && c <= '9' || c == '-' || c == '.') {
			return false
		}
	}
	return true
}

// ---------------------------------------------------------------- the oracle on static data

func c17nameOK(s string) bool {
	if s == "" {
		return false
	}
	c := s[0]
	if !(c >= 'A' && c <= 'Z' || c >= 'a' && c <= 'z') {
		return false
	}
	for i := 0; i < len(s); i++ {
		c := s[i]
		if !(c >= 'A' && c <= 'Z' || c >= 'a' && c <= 'z' || c >= '0' && c <= '9' || c == '_') {
			return false
		}
	}
	return true
}

type c17fail struct {
	sig, desc string
	cas       map[string]any
}

// c17static evaluates the data half of the property on the live snapshot: bijections, hygiene,
// number ranges, equality with the pinned snapshot.
func c17static(s, pinned *reg.Snapshot) (fails []c17fail, checked int) {
	add := func(sig, desc string, cas map[string]any) {
		cas["kind"] = "static"
		cas["sig"] = sig
		fails = append(fails, c17fail{sig, desc, cas})
	}
	bij := func(scope string, tag int64, fwd []reg.NumName, rev []reg.NameNum) {
		f := map[int64]string{}
		r := map[string]int64{}
		for _, e := range fwd {
			f[e.Num] = e.Name
		}
		for _, e := range rev {
			r[e.Name] = e.Num
		}
		for _, e := range fwd {
			checked++
			if n, ok := r[e.Name]; !ok || n != e.Num {
				add("C17/"+scope+"/name-does-not-denote-its-number",
					fmt.Sprintf("%s scope 0x%X: number 0x%X is named %q, but the name %q denotes 0x%X (known=%v)", scope, tag, e.Num, e.Name, e.Name, n, ok),
					map[string]any{"scope": scope, "tag": tag, "num": e.Num, "name": e.Name})
			}
			if !c17nameOK(e.Name) {
				add("C17/"+scope+"/name-hygiene",
					fmt.Sprintf("%s scope 0x%X: name %q of 0x%X is empty, numeric-looking or contains a character outside [A-Za-z0-9_]", scope, tag, e.Name, e.Num),
					map[string]any{"scope": scope, "tag": tag, "num": e.Num, "name": e.Name})
			}
		}
		for _, e := range rev {
			checked++
			if s, ok := f[e.Num]; !ok || s != e.Name {
				add("C17/"+scope+"/number-has-another-name",
					fmt.Sprintf("%s scope 0x%X: the name %q denotes 0x%X, whose canonical name is %q (known=%v)", scope, tag, e.Name, e.Num, s, ok),
					map[string]any{"scope": scope, "tag": tag, "num": e.Num, "name": e.Name})
			}
		}
	}
	bij("tags", 0, s.TagNames, s.TagByName)
	for _, e := range s.TagNames {
		if e.Name == "TTLV" {
			add("C17/tags/name-hygiene", "a tag is named TTLV, the element name reserved for unnamed tags", map[string]any{"scope": "tags", "num": e.Num, "name": e.Name})
		}
		if e.Num <= 0 || e.Num >= 1<<24 {
			add("C17/tags/number-range", fmt.Sprintf("tag %q has number 0x%X outside 1..0xFFFFFF", e.Name, e.Num), map[string]any{"scope": "tags", "num": e.Num, "name": e.Name})
		}
	}
	bij("types", 0, s.TypeNames, s.NameTypes)
	revOf := map[int64][]reg.NameNum{}
	for _, e := range s.EnumsByName {
		revOf[e.Tag] = e.Entries
	}
	seen := map[int64]bool{}
	for _, e := range s.EnumNames {
		seen[e.Tag] = true
		rev, ok := revOf[e.Tag]
		if !ok {
			add("C17/enums/scope-missing", fmt.Sprintf("enumeration 0x%X has a forward table but no reverse table", e.Tag), map[string]any{"scope": "enums", "tag": e.Tag})
		}
		bij("enums", e.Tag, e.Entries, rev)
		for _, x := range e.Entries {
			if x.Num < 0 || x.Num > 0xFFFFFFFF {
				add("C17/enums/number-range", fmt.Sprintf("enumeration 0x%X value %q = %d is not a uint32", e.Tag, x.Name, x.Num), map[string]any{"scope": "enums", "tag": e.Tag, "num": x.Num, "name": x.Name})
			}
		}
	}
	for _, e := range s.EnumsByName {
		if !seen[e.Tag] {
			add("C17/enums/scope-missing", fmt.Sprintf("enumeration 0x%X has a reverse table but no forward table", e.Tag), map[string]any{"scope": "enums", "tag": e.Tag})
		}
	}
	mrev := map[int64][]reg.NameNum{}
	for _, e := range s.BitmaskByName {
		mrev[e.Tag] = e.Entries
	}
	for _, e := range s.BitmaskNames {
		var fwd []reg.NumName
		for i, n := range e.Names {
			fwd = append(fwd, reg.NumName{Num: int64(int32(uint32(1) << uint(i))), Name: n})
		}
		if len(e.Names) > 32 {
			add("C17/masks/too-many-flags", fmt.Sprintf("bit mask 0x%X has %d flag names", e.Tag, len(e.Names)), map[string]any{"scope": "masks", "tag": e.Tag})
		}
		bij("masks", e.Tag, fwd, mrev[e.Tag])
	}
	// ---- live registry = pinned snapshot
	if pinned != nil {
		cmpNN := func(table string, tag int64, live, pin []reg.NumName) {
			lm := map[int64]string{}
			pm := map[int64]string{}
			for _, e := range live {
				lm[e.Num] = e.Name
			}
			for _, e := range pin {
				pm[e.Num] = e.Name
			}
			for _, e := range pin {
				checked++
				if n, ok := lm[e.Num]; !ok {
					add("C17/pinned/"+table+"/entry-removed", fmt.Sprintf("%s scope 0x%X: pinned entry 0x%X %q is no longer registered", table, tag, e.Num, e.Name),
						map[string]any{"table": table, "tag": tag, "num": e.Num, "name": e.Name})
				} else if n != e.Name {
					add("C17/pinned/"+table+"/entry-renamed", fmt.Sprintf("%s scope 0x%X: 0x%X is pinned as %q but registered as %q", table, tag, e.Num, e.Name, n),
						map[string]any{"table": table, "tag": tag, "num": e.Num, "name": e.Name})
				}
			}
			for _, e := range live {
				if _, ok := pm[e.Num]; !ok {
					add("C17/pinned/"+table+"/entry-added", fmt.Sprintf("%s scope 0x%X: 0x%X %q is registered but not in the pinned KMIP 1.0-1.4 snapshot", table, tag, e.Num, e.Name),
						map[string]any{"table": table, "tag": tag, "num": e.Num, "name": e.Name})
				}
			}
		}
		cmpNa := func(table string, tag int64, live, pin []reg.NameNum) {
			lm := map[string]int64{}
			pm := map[string]int64{}
			for _, e := range live {
				lm[e.Name] = e.Num
			}
			for _, e := range pin {
				pm[e.Name] = e.Num
			}
			for _, e := range pin {
				checked++
				if n, ok := lm[e.Name]; !ok {
					add("C17/pinned/"+table+"/name-removed", fmt.Sprintf("%s scope 0x%X: pinned name %q (0x%X) is no longer known", table, tag, e.Name, e.Num),
						map[string]any{"table": table, "tag": tag, "num": e.Num, "name": e.Name})
				} else if n != e.Num {
					add("C17/pinned/"+table+"/name-renumbered", fmt.Sprintf("%s scope 0x%X: %q is pinned as 0x%X but denotes 0x%X", table, tag, e.Name, e.Num, n),
						map[string]any{"table": table, "tag": tag, "num": e.Num, "name": e.Name})
				}
			}
			for _, e := range live {
				if _, ok := pm[e.Name]; !ok {
					add("C17/pinned/"+table+"/name-added", fmt.Sprintf("%s scope 0x%X: name %q (0x%X) is known but not in the pinned KMIP 1.0-1.4 snapshot", table, tag, e.Name, e.Num),
						map[string]any{"table": table, "tag": tag, "num": e.Num, "name": e.Name})
				}
			}
		}
		cmpNN("tag_names", 0, s.TagNames, pinned.TagNames)
		cmpNa("tag_by_name", 0, s.TagByName, pinned.TagByName)
		cmpNN("type_names", 0, s.TypeNames, pinned.TypeNames)
		cmpNa("name_types", 0, s.NameTypes, pinned.NameTypes)
		scopes := func(table string, live, pin []int64) {
			lm := map[int64]bool{}
			pm := map[int64]bool{}
			for _, t := range live {
				lm[t] = true
			}
			for _, t := range pin {
				pm[t] = true
				if !lm[t] {
					add("C17/pinned/"+table+"/scope-removed", fmt.Sprintf("%s: pinned scope 0x%X is no longer registered", table, t), map[string]any{"table": table, "tag": t})
				}
			}
			for _, t := range live {
				if !pm[t] {
					add("C17/pinned/"+table+"/scope-added", fmt.Sprintf("%s: scope 0x%X is registered but not pinned", table, t), map[string]any{"table": table, "tag": t})
				}
			}
		}
		var lt, pt []int64
		pe := map[int64][]reg.NumName{}
		for _, e := range pinned.EnumNames {
			pe[e.Tag] = e.Entries
			pt = append(pt, e.Tag)
		}
		for _, e := range s.EnumNames {
			lt = append(lt, e.Tag)
			if p, ok := pe[e.Tag]; ok {
				cmpNN("enum_names", e.Tag, e.Entries, p)
			}
		}
		scopes("enum_names", lt, pt)
		lt, pt = nil, nil
		pr := map[int64][]reg.NameNum{}
		for _, e := range pinned.EnumsByName {
			pr[e.Tag] = e.Entries
			pt = append(pt, e.Tag)
		}
		for _, e := range s.EnumsByName {
			lt = append(lt, e.Tag)
			if p, ok := pr[e.Tag]; ok {
				cmpNa("enums_by_name", e.Tag, e.Entries, p)
			}
		}
		scopes("enums_by_name", lt, pt)
		lt, pt = nil, nil
		pmn := map[int64][]string{}
		for _, e := range pinned.BitmaskNames {
			pmn[e.Tag] = e.Names
			pt = append(pt, e.Tag)
		}
		for _, e := range s.BitmaskNames {
			lt = append(lt, e.Tag)
			if p, ok := pmn[e.Tag]; ok {
				n := len(p)
				if len(e.Names) > n {
					n = len(e.Names)
				}
				for i := 0; i < n; i++ {
					checked++
					var a, b string
					if i < len(e.Names) {
						a = e.Names[i]
					}
					if i < len(p) {
						b = p[i]
					}
					if a != b {
						add("C17/pinned/bitmask_names/flag-changed", fmt.Sprintf("bit mask 0x%X bit %d: pinned %q, registered %q", e.Tag, i, b, a),
							map[string]any{"table": "bitmask_names", "tag": e.Tag, "num": int64(i), "name": b})
					}
				}
			}
		}
		scopes("bitmask_names", lt, pt)
		lt, pt = nil, nil
		pbr := map[int64][]reg.NameNum{}
		for _, e := range pinned.BitmaskByName {
			pbr[e.Tag] = e.Entries
			pt = append(pt, e.Tag)
		}
		for _, e := range s.BitmaskByName {
			lt = append(lt, e.Tag)
			if p, ok := pbr[e.Tag]; ok {
				cmpNa("bitmask_by_name", e.Tag, e.Entries, p)
			}
		}
		scopes("bitmask_by_name", lt, pt)
	}
	return fails, checked
}

// ---------------------------------------------------------------- OASIS vectors vs pinned snapshot

func c17vectors(c *h.Ctx, pinned *reg.Snapshot) (fails []c17fail, files, names int, unreg map[string]int) {
	unreg = map[string]int{}
	tagByName := map[string]int64{}
	for _, e := range pinned.TagByName {
		tagByName[e.Name] = e.Num
	}
	enumRev := map[int64]map[string]bool{}
	for _, e := range pinned.EnumsByName {
		m := map[string]bool{}
		for _, x := range e.Entries {
			m[x.Name] = true
		}
		enumRev[e.Tag] = m
	}
	maskRev := map[int64]map[string]bool{}
	for _, e := range pinned.BitmaskByName {
		m := map[string]bool{}
		for _, x := range e.Entries {
			m[x.Name] = true
		}
		maskRev[e.Tag] = m
	}
	add := func(sig, desc string, cas map[string]any) {
		cas["kind"] = "vectors"
		cas["sig"] = sig
		fails = append(fails, c17fail{sig, desc, cas})
	}
	isNumeric := func(v string) bool {
		if strings.HasPrefix(v, "0x") {
			return true
		}
		_, err := strconv.ParseInt(v, 10, 64)
		return err == nil
	}
	root := filepath.Join(c.Repo, "kmiptest", "testdata")
	var paths []string
	_ = filepath.Walk(root, func(p string, info os.FileInfo, err error) error {
		if err == nil && !info.IsDir() && strings.HasSuffix(p, ".xml") {
			paths = append(paths, p)
		}
		return nil
	})
	sort.Strings(paths)
	for _, p := range paths {
		data, err := os.ReadFile(p)
		if err != nil {
			continue
		}
		files++
		rel, _ := filepath.Rel(c.Repo, p)
		d := xml.NewDecoder(bytes.NewReader(data))
		lastAttrName := ""
		for {
			tok, err := d.Token()
			if err != nil {
				break
			}
			se, ok := tok.(xml.StartElement)
			if !ok {
				continue
			}
			name := se.Name.Local
			if name == "KMIP" || name == "TTLV" {
				continue
			}
			names++
			tag, known := tagByName[name]
			if !known {
				add("C17/vectors/unknown-tag-name", fmt.Sprintf("%s: element <%s> is not a tag name of the pinned snapshot", rel, name), map[string]any{"file": rel, "name": name})
				continue
			}
			var typ, val string
			for _, a := range se.Attr {
				switch a.Name.Local {
				case "type":
					typ = a.Value
				case "value":
					val = a.Value
				}
			}
			if name == "AttributeName" {
				lastAttrName = val
			}
			scope := tag
			scopeKnown := true
			if name == "AttributeValue" {
				t, ok := tagByName[strings.ReplaceAll(lastAttrName, " ", "")]
				scope, scopeKnown = t, ok
			}
			switch typ {
			case "Enumeration":
				if isNumeric(val) || strings.HasPrefix(val, "$") {
					continue
				}
				names++
				if m, ok := enumRev[scope]; scopeKnown && ok {
					if !m[val] {
						add("C17/vectors/unknown-enum-name", fmt.Sprintf("%s: <%s> value %q is not a name of enumeration 0x%X in the pinned snapshot", rel, name, val, scope),
							map[string]any{"file": rel, "name": val, "tag": scope})
					}
				} else {
					// the element is not an enumeration the library registers (e.g. DerivationMethod:
					// DeriveKey is not implemented): nothing registered to compare with; reported as information
					unreg[name+"="+val]++
				}
			case "Integer":
				if m, ok := maskRev[scope]; scopeKnown && ok {
					for _, part := range strings.Fields(val) {
						if isNumeric(part) || strings.HasPrefix(part, "$") {
							continue
						}
						names++
						if !m[part] {
							add("C17/vectors/unknown-mask-name", fmt.Sprintf("%s: <%s> flag %q is not a name of bit mask 0x%X in the pinned snapshot", rel, name, part, scope),
								map[string]any{"file": rel, "name": part, "tag": scope})
						}
					}
				}
			}
		}
	}
	return fails, files, names, unreg
}

// ---------------------------------------------------------------- cases

type c17enumCase struct {
	EnumTag int64 `json:"enumtag"`
	Tag     int64 `json:"tag"`
	Val     int64 `json:"value"`
}

type c17readCase struct {
	Form    string  `json:"form"`
	RealTag int64   `json:"realtag"`
	Tag     int64   `json:"tag"`
	In      c17jval `json:"in"`
}

func c17eff(real, tag int64) int64 {
	if real <= 0 {
		return tag
	}
	return real
}

func driveC17(c *h.Ctx) error {
	c.Rule("the whole live registry (every tag, every value of every enumeration, every flag of every bit mask, every TTLV type name), " +
		"forward and reverse maps independently, plus unregistered numbers (boundaries and seeded random) and unregistered / malformed strings; " +
		"on each: TagString, Encoder.Enum/Bitmask through the XML, JSON and text writers, Decoder.Tag/Enum/Bitmask of the XML and JSON readers, " +
		"MarshalText/UnmarshalText of every registered Go enum / mask type; a case is non-trivial when it involves a registered entry or a " +
		"string/number that is not the zero value; distinct by (table, inputs)")
	if c.Replay == nil || func() bool { m, _ := c.Replay["case"].(map[string]any); return m != nil && m["kind"] == "concurrent-mask-names" }() {
		c17Concurrent(c)
	}
	live := reg.FromLive()
	var pinned *reg.Snapshot
	if b, err := os.ReadFile(filepath.Join(c.Verif, "coq", "theories", "PinnedRegistry.v")); err == nil {
		pinned, err = reg.ParseCoq(string(b), "pinned_")
		if err != nil {
			return fmt.Errorf("PinnedRegistry.v: %v", err)
		}
	} else {
		return err
	}
	// self-check of the snapshot reader: printing the parsed snapshot gives the file's definitions back
	c.Extra("registry_counts", map[string]int{"tags": len(live.TagNames), "enumerations": len(live.EnumNames), "bit_masks": len(live.BitmaskNames), "types": len(live.TypeNames)})

	var replayCase map[string]any
	if c.Replay != nil {
		replayCase, _ = c.Replay["case"].(map[string]any)
	}
	matchReplay := func(cas map[string]any) bool {
		if replayCase == nil {
			return true
		}
		for _, k := range []string{"kind", "sig", "scope", "table", "tag", "num", "name", "file"} {
			a, aok := cas[k]
			b, bok := replayCase[k]
			if aok != bok {
				return false
			}
			if aok && fmt.Sprint(a) != fmt.Sprint(toInt(b)) && fmt.Sprint(a) != fmt.Sprint(b) {
				return false
			}
		}
		return true
	}

	// ---- static oracle: bijection, hygiene, ranges, pinned
	kind := ""
	if replayCase != nil {
		kind, _ = replayCase["kind"].(string)
	}
	if replayCase == nil || kind == "static" {
		fails, n := c17static(live, pinned)
		for i := 0; i < n; i++ {
			c.Eval(fmt.Sprintf("static/%d", i), true)
		}
		c.CountN("oracle:static-entry-checks", n)
		for _, f := range fails {
			if matchReplay(f.cas) {
				c.Fail(f.sig, f.desc, f.cas)
			}
		}
	}
	if replayCase == nil || kind == "vectors" {
		fails, files, names, unreg := c17vectors(c, pinned)
		c.Extra("oasis_vector_enumerations_not_registered_by_the_library", unreg)
		c.Extra("oasis_vector_files", files)
		c.Extra("oasis_vector_names_checked", names)
		c.CountN("oracle:vector-names", names)
		c.Eval("vectors", true)
		for _, f := range fails {
			if matchReplay(f.cas) {
				c.Fail(f.sig, f.desc, f.cas)
			}
		}
	}
	if replayCase != nil && (kind == "static" || kind == "vectors") {
		return nil
	}
	if replayCase != nil {
		return c17replayDynamic(c, replayCase)
	}

	d := &c17run{c: c, live: live, oracle: true}
	d.tagCases()
	d.enumCases()
	d.maskCases()
	d.textCases()
	c.Exhaustive(true)
	// ---- second registry: the library's entries plus well-formed entries of shapes the library
	// does not have (a named bit 31, a full 32-flag mask, named values 0, 2^31 and 2^32-1, lower-case
	// and underscore names): the theorems are generic in the registry, so is the correspondence
	tsnap := c17registerTestEntries()
	// what was registered (in two calls) is what the registry holds, in both directions: the expectation
	// is the map handed to the Register function, not the registry's own dump
	c17registeredEntries(c)
	dt := &c17run{c: c, live: tsnap, oracle: true, pfx: "t_"}
	dt.testRegistryCases()
	return d.writeCases(dt, tsnap)
}

// Go types of the test enumeration / masks (registered only inside this driver process).
type c17TE uint32
type c17TM int32
type c17TM2 int32
type c17TM3 int32
type c17TM4 int32

const (
	c17tE  = 0x540101
	c17tM  = 0x540102
	c17tM2 = 0x540103
	c17tM3 = 0x540104
	c17tM4 = 0x540105
)

var c17testTags = []struct {
	name string
	num  int
}{{"VerifTagA", 0x540110}, {"verif_tag_b", 0x540111}, {"V", 0x54FFFF}, {"T0x", 0x000001}, {"Z9", 0xFFFFFF}}

var c17testEnum = map[c17TE]string{0: "ZeroValue", 1: "One", 6: "Plain", 42: "x9_z", 0x7FFFFFFF: "MaxInt", 0x80000000: "HighBit", 0xFFFFFFFF: "Max", 7: "E0x10", 8: "X"}

// c17registerTestEntries registers the additional entries through the library's public Register*
// functions and returns the snapshot of the resulting registry.
func c17registerTestEntries() *reg.Snapshot {
	for _, t := range c17testTags {
		ttlv.RegisterTag(t.name, t.num)
	}
	// registered in TWO calls for the same tag (an application extending an enumeration after the
	// library registered it): the entries of the first call must stay readable by name
	first, second := map[c17TE]string{}, map[c17TE]string{}
	for v, n := range c17testEnum {
		if v%2 == 0 {
			first[v] = n
		} else {
			second[v] = n
		}
	}
	ttlv.RegisterEnum(c17tE, first)
	ttlv.RegisterEnum(c17tE, second)
	full := make([]string, 32)
	for i := range full {
		full[i] = fmt.Sprintf("F%d", i)
	}
	full[31] = "Top"
	ttlv.RegisterBitmask[c17TM](c17tM, full...)
	ttlv.RegisterBitmask[c17TM2](c17tM2, "Only")
	ttlv.RegisterBitmask[c17TM3](c17tM3, full[:31]...)
	return reg.FromLive()
}

// c17gapMask: a bit mask registered with reserved (unnamed) bits between named flags - legal for
// RegisterBitmask, and the pinned masks have none: whatever is written for a value (names for the
// named flags) is read back as the same number.  Oracle only; registered after the snapshot of the
// test registry was taken, so that the unnamed entries are not part of the model's registry.
var c17gapOnce sync.Once

func (d *c17run) gapMaskCases() {
	c := d.c
	names := []string{"Read_Only", "", "Wrap", "Key", "", "", "Wrap_Key", "HMAC_SHA256Sign"}
	c17gapOnce.Do(func() { ttlv.RegisterBitmask[c17TM4](c17tM4, names...) })
	var named []int
	for i, n := range names {
		if n != "" {
			named = append(named, i)
		}
	}
	for sub := 1; sub < 1<<len(named); sub++ {
		var v int64
		for k, i := range named {
			if sub>>k&1 == 1 {
				v |= 1 << i
			}
		}
		c.Eval(fmt.Sprintf("gapmask/%d", v), true)
		c.Count("mask-value:reserved-gaps")
		cas := map[string]any{"kind": "test-registry", "masktag": int64(c17tM4), "value": v}
		for f := fXML; f <= fJSON; f++ {
			w := c17write(f, "Integer", func(e *ttlv.Encoder) { e.Bitmask(0, c17tM4, int32(v)) })
			if w.Panic != "" {
				d.fail("C17/mask-rt/writer-panic/"+c17formName[f], fmt.Sprintf("Bitmask(0x%X, %d) panicked: %s", c17tM4, v, w.Panic), cas)
				continue
			}
			r := c17readMask(f, 0, c17tM4, c17jval{Str: w.Val})
			if !(r.Ok && r.Val == v) {
				d.fail("C17/mask-rt/"+c17formName[f]+"/reserved-gaps", fmt.Sprintf("bit mask with reserved bits %q: value 0x%X is written %q in %s and read back as %s", names, v, w.Val, c17formName[f], r), cas)
			}
		}
	}
	for _, i := range named {
		c.Eval(fmt.Sprintf("gapmask/name/%d", i), true)
		if back, err := ttlv.BitmaskByStr(c17tM4, names[i]); err != nil || int64(back) != 1<<i {
			d.fail("C17/mask-rt/by-name/reserved-gaps", fmt.Sprintf("bit mask with reserved bits %q: flag %q is bit %d, BitmaskByStr gives 0x%X (%v)", names, names[i], i, int64(back), err),
				map[string]any{"kind": "test-registry", "masktag": int64(c17tM4), "flag": names[i]})
		}
	}
}

func (d *c17run) testRegistryCases() {
	c := d.c
	d.gapMaskCases()
	d.appTypeNameCases()
	// tags: same treatment as the library's (written forms, read back, reader on the names)
	known := map[int64]string{}
	for _, e := range d.live.TagNames {
		known[e.Num] = e.Name
	}
	for _, t := range c17testTags {
		n := int64(t.num)
		c.Eval(fmt.Sprintf("t_tagw/%d", n), true)
		c.Count("test-registry:tag")
		cas := map[string]any{"kind": "test-registry", "tag": n}
		ts := ttlv.TagString(int(n))
		wx := c17write(fXML, "Integer", func(e *ttlv.Encoder) { e.Integer(int(n), 1) })
		wj := c17write(fJSON, "Integer", func(e *ttlv.Encoder) { e.Integer(int(n), 1) })
		wt := c17write(fText, "Integer", func(e *ttlv.Encoder) { e.Integer(int(n), 1) })
		if wx.Panic != "" || wj.Panic != "" || wt.Panic != "" {
			d.fail("C17/test-registry/tag-rt/writer-panic", fmt.Sprintf("writing test tag 0x%X (%q) panicked: %s %s %s", n, t.name, wx.Panic, wj.Panic, wt.Panic), cas)
			continue
		}
		rx := c17readTagXML(wx.Name, wx.Attr)
		rj := c17readTagJSON(wj.Tag)
		if !(rx.Ok && rx.Val == n) || !(rj.Ok && rj.Val == n) || ts != t.name {
			d.fail("C17/test-registry/tag-rt", fmt.Sprintf("test tag 0x%X registered as %q: TagString %q, XML <%s tag=%s> read back %s, JSON %q read back %s", n, t.name, ts, wx.Name, deref(wx.Attr), rx, wj.Tag, rj), cas)
		}
		d.tagwRows = append(d.tagwRows, fmt.Sprintf("(%s, %s, %s, %s, %s, %s)", h.Z(n), c17Str(ts), c17Str(wx.Name), c17OptStr(wx.Attr), c17Str(wj.Tag), c17Str(wt.Tag)))
		c.IndexCase("mism_t_tagw", len(d.tagwRows)-1, cas)
	}
	raws := []string{"", "TTLV", "VerifTagA", "verif_tag_b", "V", "T0x", "Z9", "veriftaga", "0x540110", "0x000001", "0xFFFFFF", "0x0", "Nope", "ActivationDate"}
	for _, raw := range raws {
		c.Eval("t_tagr/"+raw, true)
		cas := map[string]any{"kind": "test-registry", "raw": raw}
		if c17validXMLName(raw) {
			r := c17readTagXML(raw, nil)
			d.tagrRows = append(d.tagrRows, fmt.Sprintf("(%s, None, %s)", c17Str(raw), r.coq()))
			c.IndexCase("mism_t_tagr", len(d.tagrRows)-1, cas)
		}
		r := c17readTagXML("TTLV", &raw)
		d.tagrRows = append(d.tagrRows, fmt.Sprintf("(%s, %s, %s)", c17Str("TTLV"), c17OptStr(&raw), r.coq()))
		c.IndexCase("mism_t_tagr", len(d.tagrRows)-1, cas)
		r = c17readTagJSON(raw)
		d.tagrRows = append(d.tagrRows, fmt.Sprintf("(%s, %s, %s)", c17Str("TTLV"), c17OptStr(&raw), r.coq()))
		c.IndexCase("mism_t_tagr", len(d.tagrRows)-1, cas)
	}
	// enumeration
	for _, e := range d.live.EnumNames {
		if e.Tag != c17tE {
			continue
		}
		regd := map[int64]bool{}
		for _, x := range e.Entries {
			regd[x.Num] = true
		}
		for _, v := range d.enumValues(e, 8000) {
			d.oneEnumWrite(c17enumCase{0, c17tE, v}, regd[v])
			d.oneEnumWrite(c17enumCase{c17tE, c17AttributeValue, v}, regd[v])
		}
	}
	var texts []string
	for _, n := range c17testEnum {
		texts = append(texts, n, n+" ", " "+n, strings.ToLower(n), n+"X")
	}
	sort.Strings(texts)
	texts = append(texts, c17numStrings...)
	for _, s := range texts {
		for _, form := range []string{"xml", "json"} {
			d.oneEnumRead(c17readCase{form, 0, c17tE, c17jval{Str: s}})
			d.oneEnumRead(c17readCase{form, c17tE, c17AttributeValue, c17jval{Str: s}})
		}
	}
	// masks
	for mi, m := range d.live.BitmaskNames {
		if m.Tag != c17tM && m.Tag != c17tM2 && m.Tag != c17tM3 {
			continue
		}
		for _, v := range d.maskValues(len(m.Names), uint64(8000+mi)) {
			d.oneMaskWrite(c17maskCase{0, m.Tag, v})
			if v < 0 {
				d.oneMaskWrite(c17maskCase{m.Tag, c17AttributeValue, v})
			}
		}
		for _, s := range d.maskStrings(m.Names, uint64(8100+mi)) {
			for _, form := range []string{"xml", "json"} {
				d.oneMaskRead(c17readCase{form, 0, m.Tag, c17jval{Str: s}})
			}
		}
	}
}

func toInt(v any) any {
	if f, ok := v.(float64); ok && f == float64(int64(f)) {
		return int64(f)
	}
	return v
}

type c17run struct {
	c    *h.Ctx
	live *reg.Snapshot
	// oracle: evaluate the property statement (true on the library's registry; false on the
	// deliberately unhygienic test registry, where only model = implementation is checked)
	oracle bool
	pfx    string // prefix of the mismatch tables ("" or "t_")

	tagwRows, tagrRows, enumwRows, enumrRows, maskwRows, maskrRows, mtwRows, mtrRows, mmwRows, mmrRows []string
}

func (d *c17run) fail(sig, desc string, cas any) {
	if d.oracle {
		d.c.Fail(sig, desc, cas)
	}
}

// ---- tags

func (d *c17run) tagNumbers() []int64 {
	var l []int64
	for _, e := range d.live.TagNames {
		l = append(l, e.Num)
	}
	l = append(l, 0, 1, 0x41FFFF, 0x420000, 0x420125, 0x42FFFF, 0x430000, 0x540000, 0x540001, 0x54FFFF, 0xFFFFFF, 0x1000000, 0x7FFFFFFF, 0x80000000, 0xFFFFFFFF, 0x100000005, -1, -0x420001)
	for i := 0; i < d.c.Pick(60, 600); i++ {
		r := d.c.Rng.Fork(uint64(1000 + i))
		switch r.Intn(3) {
		case 0:
			l = append(l, 0x420000+int64(r.Intn(0x400)))
		case 1:
			l = append(l, int64(r.Intn(1<<24)))
		default:
			l = append(l, int64(r.U64()>>uint(33+r.Intn(30))))
		}
	}
	return l
}

func (d *c17run) tagCases() {
	c := d.c
	known := map[int64]string{}
	for _, e := range d.live.TagNames {
		known[e.Num] = e.Name
	}
	for _, n := range d.tagNumbers() {
		_, reg := known[n]
		c.Eval(fmt.Sprintf("tagw/%d", n), reg || n != 0)
		if reg {
			c.Count("tag:registered")
		} else {
			c.Count("tag:unregistered")
		}
		cas := map[string]any{"kind": "tag-rt", "tag": n}
		ts := ttlv.TagString(int(n))
		wx := c17write(fXML, "Integer", func(e *ttlv.Encoder) { e.Integer(int(n), 1) })
		wj := c17write(fJSON, "Integer", func(e *ttlv.Encoder) { e.Integer(int(n), 1) })
		wt := c17write(fText, "Integer", func(e *ttlv.Encoder) { e.Integer(int(n), 1) })
		if wx.Panic != "" || wj.Panic != "" || wt.Panic != "" {
			d.fail("C17/tag-rt/writer-panic", fmt.Sprintf("writing tag 0x%X panicked: %s %s %s", n, wx.Panic, wj.Panic, wt.Panic), cas)
			continue
		}
		// oracle: what is written is read back as the same number (3-byte tags and beyond, up to int32)
		if n >= 0 && n < 1<<31 {
			rx := c17readTagXML(wx.Name, wx.Attr)
			rj := c17readTagJSON(wj.Tag)
			if !(rx.Ok && rx.Val == n) {
				d.fail("C17/tag-rt/xml", fmt.Sprintf("tag 0x%X is written <%s tag=%v> in XML and read back as %s", n, wx.Name, deref(wx.Attr), rx), cas)
			}
			if !(rj.Ok && rj.Val == n) {
				d.fail("C17/tag-rt/json", fmt.Sprintf("tag 0x%X is written %q in JSON and read back as %s", n, wj.Tag, rj), cas)
			}
		}
		if wt.Tag != ts || wj.Tag != ts {
			d.fail("C17/tag-rt/forms-differ", fmt.Sprintf("tag 0x%X: TagString %q, JSON %q, text %q", n, ts, wj.Tag, wt.Tag), cas)
		}
		d.tagwRows = append(d.tagwRows, fmt.Sprintf("(%s, %s, %s, %s, %s, %s)", h.Z(n), c17Str(ts), c17Str(wx.Name), c17OptStr(wx.Attr), c17Str(wj.Tag), c17Str(wt.Tag)))
		c.IndexCase("mism_"+d.pfx+"tagw", len(d.tagwRows)-1, cas)
		if len(d.tagwRows)%97 == 1 {
			c.Sample(map[string]any{"table": "tagw", "tag": n, "TagString": ts, "xml_element": wx.Name, "xml_tag_attr": deref(wx.Attr)})
		}
	}
	// reader on arbitrary raw strings
	var raws []string
	for _, e := range d.live.TagByName {
		raws = append(raws, e.Name)
	}
	raws = append(raws, "", "TTLV", "ttlv", "0x", "0x0", "0x420001", "0X420001", "0x42000g", "0x-1", "0x+1", "0x7FFFFFFF", "0x80000000", "0xFFFFFFFF",
		"0x0000000000420001", "0x420001 ", " 0x420001", "4325377", "0", "Unknown", "0xabcdef", "0xABCDEF", "x", "0", "0x_1", "0x1_0")
	for i, e := range d.live.TagByName {
		if i%7 == 0 {
			raws = append(raws, strings.ToLower(e.Name), e.Name+"X", e.Name[:len(e.Name)-1], " "+e.Name, "0x"+e.Name)
		}
	}
	for i := 0; i < d.c.Pick(40, 400); i++ {
		r := d.c.Rng.Fork(uint64(2000 + i))
		raws = append(raws, fmt.Sprintf("0x%0*X", 1+r.Intn(10), r.U64()>>uint(20+r.Intn(44))))
	}
	for _, raw := range raws {
		c.Eval("tagr/"+raw, raw != "")
		c.Count("tagr:strings")
		cas := map[string]any{"kind": "tag-read", "raw": raw}
		// XML: as element name when possible, and always as tag attribute of <TTLV>
		if c17validXMLName(raw) {
			r := c17readTagXML(raw, nil)
			d.tagrRows = append(d.tagrRows, fmt.Sprintf("(%s, None, %s)", c17Str(raw), r.coq()))
			c.IndexCase("mism_"+d.pfx+"tagr", len(d.tagrRows)-1, cas)
		}
		if xmlSafe(raw) {
			r := c17readTagXML("TTLV", &raw)
			d.tagrRows = append(d.tagrRows, fmt.Sprintf("(%s, %s, %s)", c17Str("TTLV"), c17OptStr(&raw), r.coq()))
			c.IndexCase("mism_"+d.pfx+"tagr", len(d.tagrRows)-1, cas)
		}
		r := c17readTagJSON(raw)
		d.tagrRows = append(d.tagrRows, fmt.Sprintf("(%s, %s, %s)", c17Str("TTLV"), c17OptStr(&raw), r.coq()))
		c.IndexCase("mism_"+d.pfx+"tagr", len(d.tagrRows)-1, cas)
	}
}

func deref(s *string) string {
	if s == nil {
		return "<none>"
	}
	return *s
}

// xmlSafe: the string survives an XML attribute unchanged (no characters illegal in XML 1.0).
func xmlSafe(s string) bool {
	for i := 0; i < len(s); i++ {
		c := s[i]
		if c < 0x20 && c != '\t' && c != '\n' && c != '\r' || c >= 0x7f {
			return false
		}
	}
	return true
}

// ---- enumerations

func (d *c17run) enumValues(e reg.EnumFwd, salt uint64) []int64 {
	var l []int64
	max := int64(0)
	for _, x := range e.Entries {
		l = append(l, x.Num)
		if x.Num > max && x.Num < 0x80000000 {
			max = x.Num
		}
	}
	l = append(l, 0, max+1, 0x7FFFFFFF, 0x80000000, 0x80000001, 0xFFFFFFFF)
	r := d.c.Rng.Fork(salt)
	for i := 0; i < d.c.Pick(2, 20); i++ {
		l = append(l, int64(r.U64()>>uint(32+r.Intn(31))))
	}
	return l
}

const c17AttributeValue = 0x42000B

func (d *c17run) oneEnumWrite(ec c17enumCase, registered bool) {
	c := d.c
	cas := map[string]any{"kind": "enum-rt", "enumtag": ec.EnumTag, "tag": ec.Tag, "value": ec.Val}
	c.Eval(fmt.Sprintf("enumw/%d/%d/%d", ec.EnumTag, ec.Tag, ec.Val), registered || ec.Val != 0)
	if registered {
		c.Count("enum-value:registered")
	} else {
		c.Count("enum-value:unregistered")
	}
	var w [3]c17wr
	for f := fXML; f <= fText; f++ {
		w[f] = c17write(f, "Enumeration", func(e *ttlv.Encoder) { e.Enum(int(ec.EnumTag), int(ec.Tag), uint32(ec.Val)) })
		if w[f].Panic != "" {
			d.fail("C17/enum-rt/writer-panic/"+c17formName[f], fmt.Sprintf("Enum(0x%X, 0x%X, 0x%X) panicked in the %s writer: %s", ec.EnumTag, ec.Tag, ec.Val, c17formName[f], w[f].Panic), cas)
			return
		}
	}
	// oracle: written by name (or hex), read back as the same number
	for f := fXML; f <= fJSON; f++ {
		r := c17readEnum(f, ec.EnumTag, ec.Tag, c17jval{Str: w[f].Val})
		if !(r.Ok && r.Val == ec.Val) {
			cc := map[string]any{"kind": "enum-rt", "form": c17formName[f], "enumtag": ec.EnumTag, "tag": ec.Tag, "value": ec.Val}
			d.fail("C17/enum-rt/"+c17formName[f], fmt.Sprintf("enumeration 0x%X value 0x%X is written %q in %s and read back as %s", c17eff(ec.EnumTag, ec.Tag), ec.Val, w[f].Val, c17formName[f], r), cc)
		}
	}
	d.enumwRows = append(d.enumwRows, fmt.Sprintf("(%s, %s, %s, %s, %s, %s)", h.Z(ec.EnumTag), h.Z(ec.Tag), h.Z(ec.Val), c17Str(w[fXML].Val), c17Str(w[fJSON].Val), c17Str(w[fText].Val)))
	c.IndexCase("mism_"+d.pfx+"enumw", len(d.enumwRows)-1, cas)
	if len(d.enumwRows)%301 == 1 {
		c.Sample(map[string]any{"table": "enumw", "enumtag": ec.EnumTag, "tag": ec.Tag, "value": ec.Val, "xml": w[fXML].Val, "json": w[fJSON].Val, "text": w[fText].Val})
	}
}

func (d *c17run) oneEnumRead(rc c17readCase) {
	c := d.c
	form := fXML
	if rc.Form == "json" {
		form = fJSON
	}
	if form == fXML && (rc.In.IsNum || !xmlSafe(rc.In.Str)) {
		return
	}
	c.Eval(fmt.Sprintf("enumr/%s/%d/%d/%v", rc.Form, rc.RealTag, rc.Tag, rc.In), rc.In.IsNum || rc.In.Str != "")
	c.Count("enumr:" + rc.Form)
	r := c17readEnum(form, rc.RealTag, rc.Tag, rc.In)
	if r.Panic != "" {
		d.fail("C17/enum-read/panic/"+rc.Form, fmt.Sprintf("%s Enum reader panicked on %v: %s", rc.Form, rc.In, r.Panic), map[string]any{"kind": "enum-read", "case": rc})
	}
	in := c17Str(rc.In.Str)
	if form == fJSON {
		in = rc.In.coq()
	} else {
		in = "(JStr " + in + ")"
	}
	d.enumrRows = append(d.enumrRows, fmt.Sprintf("(%s, %s, %s, %s)", h.Z(rc.RealTag), h.Z(rc.Tag), in, r.coq()))
	d.c.IndexCase("mism_"+d.pfx+"enumr", len(d.enumrRows)-1, map[string]any{"kind": "enum-read", "case": rc, "observed": r.String()})
}

var c17numStrings = []string{"", "0", "5", "05", "00012", "4294967295", "4294967296", "99999999999999999999", "+5", "-1", "-0", "1_000", "0x", "0x5", "0X5", "0x05", "0x0000000A",
	"0xFFFFFFFF", "0xffffffff", "0x100000000", "0x00000000000000005", "0xg", "0x-5", "0x+5", "0x 5", " 5", "5 ", "5.0", "1e3", "0b101", "0o7", "x5", "0x5 ", "٣"}

func (d *c17run) enumCases() {
	c := d.c
	revOf := map[int64][]reg.NameNum{}
	for _, e := range d.live.EnumsByName {
		revOf[e.Tag] = e.Entries
	}
	allTags := []int64{}
	for _, e := range d.live.EnumNames {
		allTags = append(allTags, e.Tag)
	}
	for ei, e := range d.live.EnumNames {
		regd := map[int64]bool{}
		for _, x := range e.Entries {
			regd[x.Num] = true
		}
		for _, v := range d.enumValues(e, uint64(3000+ei)) {
			d.oneEnumWrite(c17enumCase{0, e.Tag, v}, regd[v])
			d.oneEnumWrite(c17enumCase{e.Tag, c17AttributeValue, v}, regd[v])
		}
		// reverse map, every name, both ways of naming the enumeration; and under a wrong enumeration
		other := allTags[(ei+1)%len(allTags)]
		for xi, x := range revOf[e.Tag] {
			for _, form := range []string{"xml", "json"} {
				d.oneEnumRead(c17readCase{form, 0, e.Tag, c17jval{Str: x.Name}})
				d.oneEnumRead(c17readCase{form, e.Tag, c17AttributeValue, c17jval{Str: x.Name}})
				if xi%3 == 0 {
					d.oneEnumRead(c17readCase{form, other, c17AttributeValue, c17jval{Str: x.Name}})
					d.oneEnumRead(c17readCase{form, -1, e.Tag, c17jval{Str: x.Name}})
				}
				if xi%5 == 0 {
					for _, m := range []string{strings.ToLower(x.Name), x.Name + " ", " " + x.Name, x.Name + "X", x.Name[:len(x.Name)-1], "0x" + x.Name} {
						d.oneEnumRead(c17readCase{form, 0, e.Tag, c17jval{Str: m}})
					}
				}
			}
		}
		// numeric and malformed strings, JSON numbers
		if ei%4 == 0 {
			for _, s := range c17numStrings {
				for _, form := range []string{"xml", "json"} {
					d.oneEnumRead(c17readCase{form, 0, e.Tag, c17jval{Str: s}})
				}
			}
			for _, n := range []int64{0, 1, 5, 4294967295, 4294967296, -1, 1 << 40, -(1 << 40)} {
				d.oneEnumRead(c17readCase{"json", 0, e.Tag, c17jval{IsNum: true, Num: n}})
			}
		}
	}
	// unregistered enumerations: hex fallback whatever the value
	for i, t := range []int64{c17AttributeValue, 0x420001, 0x540000, 0x54FFFF, 1, 0} {
		r := c.Rng.Fork(uint64(4000 + i))
		for _, v := range []int64{0, 1, 0x7FFFFFFF, 0x80000000, 0xFFFFFFFF, int64(r.U64() >> 32), int64(r.U64() >> 40)} {
			d.oneEnumWrite(c17enumCase{0, t, v}, false)
			if t != 0 {
				d.oneEnumWrite(c17enumCase{t, c17AttributeValue, v}, false)
			}
		}
		for _, s := range []string{"AES", "Success", "0x00000001", "7", ""} {
			d.oneEnumRead(c17readCase{"xml", 0, t, c17jval{Str: s}})
			d.oneEnumRead(c17readCase{"json", 0, t, c17jval{Str: s}})
		}
	}
}

// ---- bit masks

func (d *c17run) maskValues(nflags int, salt uint64) []int64 {
	l := []int64{0, -1, -2147483648, 2147483647}
	for i := 0; i < 32; i++ {
		l = append(l, int64(int32(uint32(1)<<uint(i))))
	}
	for i := 0; i+1 < 32; i += 3 {
		l = append(l, int64(int32(uint32(3)<<uint(i))))
	}
	if nflags > 0 && nflags < 32 {
		l = append(l, int64(int32(uint32(1)<<uint(nflags)-1)), int64(int32(uint32(1)<<uint(nflags))), int64(int32(uint32(3)<<uint(nflags-1))))
	}
	r := d.c.Rng.Fork(salt)
	for i := 0; i < d.c.Pick(120, 2000); i++ {
		v := uint32(r.U64())
		switch r.Intn(3) {
		case 0:
			v &= uint32(r.U64()) // sparser
		case 1:
			if nflags > 0 && nflags < 32 {
				v &= 1<<uint(nflags) - 1
			}
		}
		l = append(l, int64(int32(v)))
	}
	return l
}

type c17maskCase struct {
	MaskTag int64 `json:"masktag"`
	Tag     int64 `json:"tag"`
	Val     int64 `json:"value"`
}

func (d *c17run) oneMaskWrite(mc c17maskCase) {
	c := d.c
	cas := map[string]any{"kind": "mask-rt", "masktag": mc.MaskTag, "tag": mc.Tag, "value": mc.Val}
	c.Eval(fmt.Sprintf("maskw/%d/%d/%d", mc.MaskTag, mc.Tag, mc.Val), mc.Val != 0)
	c.Count("mask-value")
	var w [3]c17wr
	for f := fXML; f <= fText; f++ {
		w[f] = c17write(f, "Integer", func(e *ttlv.Encoder) { e.Bitmask(int(mc.MaskTag), int(mc.Tag), int32(mc.Val)) })
		if w[f].Panic != "" {
			d.fail("C17/mask-rt/writer-panic/"+c17formName[f], fmt.Sprintf("Bitmask(0x%X, 0x%X, %d) panicked in the %s writer: %s", mc.MaskTag, mc.Tag, mc.Val, c17formName[f], w[f].Panic), cas)
			return
		}
	}
	for f := fXML; f <= fJSON; f++ {
		r := c17readMask(f, mc.MaskTag, mc.Tag, c17jval{Str: w[f].Val})
		if !(r.Ok && r.Val == mc.Val) {
			cc := map[string]any{"kind": "mask-rt", "form": c17formName[f], "masktag": mc.MaskTag, "tag": mc.Tag, "value": mc.Val}
			sig := "C17/mask-rt/" + c17formName[f]
			if mc.Val == 0 {
				sig += "/empty-mask"
			} else if mc.Val < 0 {
				sig += "/bit31"
			}
			d.fail(sig, fmt.Sprintf("bit mask 0x%X value 0x%08X is written %q in %s and read back as %s", c17eff(mc.MaskTag, mc.Tag), uint32(mc.Val), w[f].Val, c17formName[f], r), cc)
		}
	}
	d.maskwRows = append(d.maskwRows, fmt.Sprintf("(%s, %s, %s, %s, %s, %s)", h.Z(mc.MaskTag), h.Z(mc.Tag), h.Z(mc.Val), c17Str(w[fXML].Val), c17Str(w[fJSON].Val), c17Str(w[fText].Val)))
	c.IndexCase("mism_"+d.pfx+"maskw", len(d.maskwRows)-1, cas)
	if len(d.maskwRows)%97 == 5 {
		c.Sample(map[string]any{"table": "maskw", "masktag": mc.MaskTag, "tag": mc.Tag, "value": mc.Val, "xml": w[fXML].Val, "json": w[fJSON].Val, "text": w[fText].Val})
	}
}

func (d *c17run) oneMaskRead(rc c17readCase) {
	c := d.c
	form := fXML
	if rc.Form == "json" {
		form = fJSON
	}
	if form == fXML && (rc.In.IsNum || !xmlSafe(rc.In.Str)) {
		return
	}
	c.Eval(fmt.Sprintf("maskr/%s/%d/%d/%v", rc.Form, rc.RealTag, rc.Tag, rc.In), rc.In.IsNum || rc.In.Str != "")
	c.Count("maskr:" + rc.Form)
	r := c17readMask(form, rc.RealTag, rc.Tag, rc.In)
	if r.Panic != "" {
		d.fail("C17/mask-read/panic/"+rc.Form, fmt.Sprintf("%s Bitmask reader panicked on %v: %s", rc.Form, rc.In, r.Panic), map[string]any{"kind": "mask-read", "case": rc})
	}
	in := rc.In.coq()
	d.maskrRows = append(d.maskrRows, fmt.Sprintf("(%s, %s, %s, %s, %s)", h.Bool(form == fXML), h.Z(rc.RealTag), h.Z(rc.Tag), in, r.coq()))
	c.IndexCase("mism_"+d.pfx+"maskr", len(d.maskrRows)-1, map[string]any{"kind": "mask-read", "case": rc, "observed": r.String()})
}

func (d *c17run) maskStrings(names []string, salt uint64) []string {
	l := []string{"", " ", "|", "||", " | ", "0", "5", "-1", "+3", "2147483647", "2147483648", "-2147483648", "-2147483649", "0x1", "0x80000000", "0xFFFFFFFF", "0x100000000",
		"0X1", "0x", "0xg", "0x-1", "1 2", "1|2", "1 | 2", "1  2", "\t1\n2 ", "1 |2| 4", "0x1 0x2", "0x1|0x2", "Unknown", "1 Unknown", "1|Unknown", "a|", "|a", "1|", "|1", "1||2", "1 || 2"}
	if len(names) > 0 {
		a, b := names[0], names[len(names)-1]
		l = append(l, a, b, a+" "+b, a+"|"+b, a+" | "+b, a+"  "+b, " "+a+" ", a+"|", "|"+a, a+"||"+b, a+" "+a, strings.ToLower(a), a+"x", a+" 0x80000000", a+"|0x80000000", a+" 8", a+"|8", a+" | 8 | 0X10",
			a+","+b, a+"\t"+b, a+"\n"+b, a+" |"+b, a+"| "+b)
	}
	r := d.c.Rng.Fork(salt)
	for i := 0; i < d.c.Pick(60, 600); i++ {
		seps := []string{" ", "|", " | ", "  ", "| ", " |", "||", "\t"}
		n := r.Intn(5)
		var parts []string
		for k := 0; k < n; k++ {
			switch r.Intn(6) {
			case 0, 1, 2:
				if len(names) > 0 {
					parts = append(parts, names[r.Intn(len(names))])
				} else {
					parts = append(parts, "Sign")
				}
			case 3:
				parts = append(parts, fmt.Sprintf("0x%08X", uint32(1)<<uint(r.Intn(32))))
			case 4:
				parts = append(parts, fmt.Sprint(int32(r.U64()>>uint(32+r.Intn(31)))))
			default:
				parts = append(parts, []string{"", "Nope", "0x", "0X4", "4x"}[r.Intn(5)])
			}
		}
		l = append(l, strings.Join(parts, seps[r.Intn(len(seps))]))
	}
	return l
}

func (d *c17run) maskCases() {
	for mi, m := range d.live.BitmaskNames {
		for _, v := range d.maskValues(len(m.Names), uint64(5000+mi)) {
			d.oneMaskWrite(c17maskCase{0, m.Tag, v})
			if v%3 == 0 || v < 0 {
				d.oneMaskWrite(c17maskCase{m.Tag, c17AttributeValue, v})
			}
		}
		for _, s := range d.maskStrings(m.Names, uint64(5100+mi)) {
			for _, form := range []string{"xml", "json"} {
				d.oneMaskRead(c17readCase{form, 0, m.Tag, c17jval{Str: s}})
				d.oneMaskRead(c17readCase{form, m.Tag, c17AttributeValue, c17jval{Str: s}})
			}
		}
		for _, n := range []int64{0, 1, 12, 2147483647, 2147483648, -2147483648, -2147483649, 1 << 40} {
			d.oneMaskRead(c17readCase{"json", 0, m.Tag, c17jval{IsNum: true, Num: n}})
		}
	}
	// unregistered masks: every bit in hex
	for i, t := range []int64{c17AttributeValue, 0x540002, 0x42002A} {
		for _, v := range d.maskValues(0, uint64(5200+i))[:60] {
			d.oneMaskWrite(c17maskCase{0, t, v})
		}
		for _, s := range d.maskStrings(nil, uint64(5300+i))[:50] {
			d.oneMaskRead(c17readCase{"xml", 0, t, c17jval{Str: s}})
			d.oneMaskRead(c17readCase{"json", 0, t, c17jval{Str: s}})
		}
	}
}

// ---- MarshalText / UnmarshalText of every registered Go type

func c17marshal(ty reflect.Type, v int64) (s string, r c17res) {
	r = c17call(func() (int64, error) {
		p := reflect.New(ty)
		if ty.Kind() == reflect.Uint32 {
			p.Elem().SetUint(uint64(uint32(v)))
		} else {
			p.Elem().SetInt(v)
		}
		m, ok := p.Elem().Interface().(encoding.TextMarshaler)
		if !ok {
			return 0, fmt.Errorf("%s does not implement encoding.TextMarshaler", ty)
		}
		b, err := m.MarshalText()
		s = string(b)
		return 0, err
	})
	return
}

func c17unmarshal(ty reflect.Type, text string) c17res {
	return c17call(func() (int64, error) {
		p := reflect.New(ty)
		u, ok := p.Interface().(encoding.TextUnmarshaler)
		if !ok {
			return 0, fmt.Errorf("%s does not implement encoding.TextUnmarshaler", ty)
		}
		if err := u.UnmarshalText([]byte(text)); err != nil {
			return 0, err
		}
		// "every name denotes exactly one number": the result must not depend on what the
		// destination held before, so decode again into a destination holding garbage
		q := reflect.New(ty)
		if ty.Kind() == reflect.Uint32 {
			q.Elem().SetUint(0xFFFFFFF5)
		} else {
			q.Elem().SetInt(0x7FFFFFF5)
		}
		if err := q.Interface().(encoding.TextUnmarshaler).UnmarshalText([]byte(text)); err == nil {
			if ty.Kind() == reflect.Uint32 && q.Elem().Uint() != p.Elem().Uint() {
				return int64(q.Elem().Uint()), nil
			}
			if ty.Kind() != reflect.Uint32 && q.Elem().Int() != p.Elem().Int() {
				return q.Elem().Int(), nil
			}
		} else {
			return 0, fmt.Errorf("accepted into a zero destination, rejected into a non-zero one: %v", err)
		}
		if ty.Kind() == reflect.Uint32 {
			return int64(p.Elem().Uint()), nil
		}
		return p.Elem().Int(), nil
	})
}

// c17reflectRT: ttlv.MarshalXML / MarshalJSON of a typed enum or mask value (reflective encoder,
// enum tag found through the type registry), then Unmarshal into a fresh value of the same type.
func c17reflectRT(ty reflect.Type, v int64, json bool) (doc string, r c17res) {
	r = c17call(func() (int64, error) {
		p := reflect.New(ty)
		if ty.Kind() == reflect.Uint32 {
			p.Elem().SetUint(uint64(uint32(v)))
		} else {
			p.Elem().SetInt(v)
		}
		q := reflect.New(ty)
		// the destination holds garbage: decoding must overwrite it
		if ty.Kind() == reflect.Uint32 {
			q.Elem().SetUint(0xFFFFFFF5)
		} else {
			q.Elem().SetInt(0x7FFFFFF5)
		}
		var err error
		if json {
			b := ttlv.MarshalJSON(p.Elem().Interface())
			doc = string(b)
			err = ttlv.UnmarshalJSON(b, q.Interface())
		} else {
			b := ttlv.MarshalXML(p.Elem().Interface())
			doc = string(b)
			err = ttlv.UnmarshalXML(b, q.Interface())
		}
		if err != nil {
			return 0, err
		}
		if ty.Kind() == reflect.Uint32 {
			return int64(q.Elem().Uint()), nil
		}
		return q.Elem().Int(), nil
	})
	return
}

func (d *c17run) reflectOracle(ty reflect.Type, v int64, cas map[string]any) {
	for _, js := range []bool{false, true} {
		form := "xml"
		if js {
			form = "json"
		}
		d.c.Count("marshal-unmarshal:" + form)
		doc, r := c17reflectRT(ty, v, js)
		if !(r.Ok && r.Val == v) {
			cc := map[string]any{"kind": "marshal-rt", "type": ty.String(), "value": v, "form": form}
			d.fail("C17/marshal-rt/"+form, fmt.Sprintf("%s(0x%X) is marshalled to %s as %s and unmarshalled as %s", ty, uint32(v), form, doc, r), cc)
		}
	}
}

func c17sortedTypes(m map[reflect.Type]int) []reflect.Type {
	var l []reflect.Type
	for t := range m {
		l = append(l, t)
	}
	sort.Slice(l, func(i, j int) bool { return l[i].String() < l[j].String() })
	return l
}

func (d *c17run) textCases() {
	c := d.c
	fwdOf := map[int64]reg.EnumFwd{}
	for _, e := range d.live.EnumNames {
		fwdOf[e.Tag] = e
	}
	revOf := map[int64][]reg.NameNum{}
	for _, e := range d.live.EnumsByName {
		revOf[e.Tag] = e.Entries
	}
	et := reg.EnumGoTypes()
	for ti, ty := range c17sortedTypes(et) {
		tag := int64(et[ty])
		e := fwdOf[tag]
		e.Tag = tag
		regd := map[int64]bool{}
		for _, x := range e.Entries {
			regd[x.Num] = true
		}
		for _, v := range d.enumValues(e, uint64(6000+ti)) {
			c.Eval(fmt.Sprintf("mtw/%s/%d", ty, v), regd[v] || v != 0)
			c.Count("marshal-text:enum")
			cas := map[string]any{"kind": "text-rt", "type": ty.String(), "value": v}
			d.reflectOracle(ty, v, cas)
			s, mr := c17marshal(ty, v)
			if !mr.Ok {
				d.fail("C17/text-rt/marshal-fails", fmt.Sprintf("%s(0x%X).MarshalText: %s", ty, v, mr), cas)
				continue
			}
			r := c17unmarshal(ty, s)
			if !(r.Ok && r.Val == v) {
				d.fail("C17/text-rt/enum", fmt.Sprintf("%s(0x%X).MarshalText() = %q, UnmarshalText gives %s", ty, v, s, r), cas)
			}
			d.mtwRows = append(d.mtwRows, fmt.Sprintf("(%s, %s, %s)", h.Z(tag), h.Z(v), c17Str(s)))
			c.IndexCase("mism_"+d.pfx+"mtw", len(d.mtwRows)-1, cas)
		}
		var texts []string
		for xi, x := range revOf[tag] {
			texts = append(texts, x.Name)
			if xi%4 == 0 {
				texts = append(texts, " "+x.Name, x.Name[:1]+" "+x.Name[1:], strings.ToLower(x.Name), x.Name+"X", "0x"+x.Name, "0X"+x.Name)
			}
		}
		if ti%3 == 0 {
			texts = append(texts, c17numStrings...)
			texts = append(texts, "0 x5", "0x 5", "4 2", "0XFF", "0Xffffffff", "0X100000000", "0Xg", "0X")
		} else {
			texts = append(texts, "", "7", "0x7", "0X7", "0xZ", "Nope")
		}
		for _, s := range texts {
			c.Eval(fmt.Sprintf("mtr/%s/%s", ty, s), s != "")
			c.Count("unmarshal-text:enum")
			r := c17unmarshal(ty, s)
			cas := map[string]any{"kind": "text-read", "type": ty.String(), "text": s, "observed": r.String()}
			if r.Panic != "" {
				d.fail("C17/text-read/panic", fmt.Sprintf("%s.UnmarshalText(%q) panicked: %s", ty, s, r.Panic), cas)
			}
			d.mtrRows = append(d.mtrRows, fmt.Sprintf("(%s, %s, %s)", h.Z(tag), c17Str(s), r.coq()))
			c.IndexCase("mism_"+d.pfx+"mtr", len(d.mtrRows)-1, cas)
		}
	}
	namesOf := map[int64][]string{}
	for _, m := range d.live.BitmaskNames {
		namesOf[m.Tag] = m.Names
	}
	mt := reg.BitmaskGoTypes()
	for ti, ty := range c17sortedTypes(mt) {
		tag := int64(mt[ty])
		names := namesOf[tag]
		for _, v := range d.maskValues(len(names), uint64(7000+ti)) {
			c.Eval(fmt.Sprintf("mmw/%s/%d", ty, v), v != 0)
			c.Count("marshal-text:mask")
			cas := map[string]any{"kind": "text-rt", "type": ty.String(), "value": v}
			d.reflectOracle(ty, v, cas)
			s, mr := c17marshal(ty, v)
			if !mr.Ok {
				d.fail("C17/text-rt/marshal-fails", fmt.Sprintf("%s(%d).MarshalText: %s", ty, v, mr), cas)
				continue
			}
			r := c17unmarshal(ty, s)
			if !(r.Ok && r.Val == v) {
				sig := "C17/text-rt/mask"
				if v < 0 {
					sig += "/bit31"
				}
				d.fail(sig, fmt.Sprintf("%s(0x%08X).MarshalText() = %q, UnmarshalText gives %s", ty, uint32(v), s, r), cas)
			}
			d.mmwRows = append(d.mmwRows, fmt.Sprintf("(%s, %s, %s)", h.Z(tag), h.Z(v), c17Str(s)))
			c.IndexCase("mism_"+d.pfx+"mmw", len(d.mmwRows)-1, cas)
		}
		for _, s := range d.maskStrings(names, uint64(7100+ti)) {
			c.Eval(fmt.Sprintf("mmr/%s/%s", ty, s), s != "")
			c.Count("unmarshal-text:mask")
			r := c17unmarshal(ty, s)
			cas := map[string]any{"kind": "text-read", "type": ty.String(), "text": s, "observed": r.String()}
			if r.Panic != "" {
				d.fail("C17/text-read/panic", fmt.Sprintf("%s.UnmarshalText(%q) panicked: %s", ty, s, r.Panic), cas)
			}
			d.mmrRows = append(d.mmrRows, fmt.Sprintf("(%s, %s, %s)", h.Z(tag), c17Str(s), r.coq()))
			c.IndexCase("mism_"+d.pfx+"mmr", len(d.mmrRows)-1, cas)
		}
	}
}

// ---- cases file

// c17okDefs are the row checkers, for a registry named reg and definitions prefixed pfx.
func c17okDefs(pfx, reg string) string {
	t := `
(* tag written: (n, TagString, xml element, xml tag attribute, json tag, text tag) *)
Definition @tagw_ok (r : Z * str * str * option str * str * str) : bool :=
  match r with (n, ts, xn, xa, js, tx) =>
    str_eqb (TagString # n) ts && str_eqb (fst (xml_start # n)) xn && ostr_eqb (snd (xml_start # n)) xa &&
    str_eqb (TagString # n) js && str_eqb (TagString # n) tx end.
(* tag read: (element name or TTLV, tag attribute / JSON tag string, Decoder.Tag()) *)
Definition @tagr_ok (r : str * option str * res Z) : bool :=
  match r with (xn, xa, o) => res_eqb (Ok (read_tag # (xml_raw_tag (xn, xa)))) o end.
Definition @enumw_ok (r : Z * Z * Z * str * str * str) : bool :=
  match r with (et, t, v, x, j, tx) =>
    let w := write_enum # et t v in str_eqb w x && str_eqb w j && str_eqb w tx end.
Definition @enumr_ok (r : Z * Z * jval * res Z) : bool :=
  match r with (rt, t, v, o) => res_eqb (read_enum_json # rt t v) o end.
Definition @maskw_ok (r : Z * Z * Z * str * str * str) : bool :=
  match r with (mt, t, v, x, j, tx) =>
    str_eqb (write_mask_xml # mt t v) x && str_eqb (write_mask_json # mt t v) j &&
    str_eqb (write_mask_text # (eff_tag mt t) v) tx end.
Definition @maskr_ok (r : bool * Z * Z * jval * res Z) : bool :=
  match r with (isxml, rt, t, v, o) =>
    res_eqb (if isxml then match v with JStr s => read_mask_xml # rt t s | _ => Err end else read_mask_json # rt t v) o end.
Definition @mtw_ok (r : Z * Z * str) : bool := match r with (t, v, s) => str_eqb (marshal_text # t v) s end.
Definition @mtr_ok (r : Z * str * res Z) : bool := match r with (t, s, o) => res_eqb (unmarshal_text # t s) o end.
Definition @mmw_ok (r : Z * Z * str) : bool := match r with (t, v, s) => str_eqb (write_mask_text # t v) s end.
Definition @mmr_ok (r : Z * str * res Z) : bool := match r with (t, s, o) => res_eqb (mask_unmarshal_text # t s) o end.
`
	return strings.ReplaceAll(strings.ReplaceAll(t, "@", pfx), "#", reg)
}

func (d *c17run) emit(sb *strings.Builder, total *int) map[string]int {
	emit := func(name, ty string, rows []string) {
		defs, expr := h.Chunk(d.pfx+name, ty, rows, 300)
		sb.WriteString(defs)
		fmt.Fprintf(sb, "Definition mism_%s%s := Eval vm_compute in bad_idx %s%s_ok %s 0.\nPrint mism_%s%s.\n", d.pfx, name, d.pfx, name, expr, d.pfx, name)
		*total += len(rows)
	}
	emit("tagw", "Z * str * str * option str * str * str", d.tagwRows)
	emit("tagr", "str * option str * res Z", d.tagrRows)
	emit("enumw", "Z * Z * Z * str * str * str", d.enumwRows)
	emit("enumr", "Z * Z * jval * res Z", d.enumrRows)
	emit("maskw", "Z * Z * Z * str * str * str", d.maskwRows)
	emit("maskr", "bool * Z * Z * jval * res Z", d.maskrRows)
	emit("mtw", "Z * Z * str", d.mtwRows)
	emit("mtr", "Z * str * res Z", d.mtrRows)
	emit("mmw", "Z * Z * str", d.mmwRows)
	emit("mmr", "Z * str * res Z", d.mmrRows)
	return map[string]int{"tagw": len(d.tagwRows), "tagr": len(d.tagrRows), "enumw": len(d.enumwRows), "enumr": len(d.enumrRows),
		"maskw": len(d.maskwRows), "maskr": len(d.maskrRows), "mtw": len(d.mtwRows), "mtr": len(d.mtrRows), "mmw": len(d.mmwRows), "mmr": len(d.mmrRows)}
}

const c17casesHeader = `From Coq Require Import ZArith List Bool String.
From KV Require Import Base RegModel Cases.
From KVGen Require Registry.
Import ListNotations.
Open Scope Z_scope.
Open Scope string_scope.

Definition res_eqb (a b : res Z) : bool :=
  match a, b with Ok x, Ok y => Z.eqb x y | Err, Err => true | _, _ => false end.
Definition ostr_eqb (a b : option str) : bool :=
  match a, b with Some x, Some y => str_eqb x y | None, None => true | _, _ => false end.
`

// writeCases: cases_C17.v evaluates the model at the library's registry (gen/Registry.v);
// cases_C17_t.v at the test registry (library's entries + deliberately unhygienic ones), whose
// content is printed into the file itself.
func (d *c17run) writeCases(dt *c17run, tsnap *reg.Snapshot) error {
	var sb strings.Builder
	sb.WriteString(c17casesHeader)
	sb.WriteString(`
Definition R : registry :=
  mk_registry Registry.tag_names Registry.tag_by_name Registry.enum_names Registry.enums_by_name
              Registry.bitmask_names Registry.bitmask_by_name Registry.type_names Registry.name_types.
`)
	sb.WriteString(c17okDefs("", "R"))
	total := 0
	d.c.Extra("rows_per_table", d.emit(&sb, &total))
	if err := d.c.WriteCases("cases_C17.v", sb.String(), total); err != nil {
		return err
	}
	if dt == nil {
		return nil
	}
	var st strings.Builder
	st.WriteString(tsnap.Coq("t_", "(* the test registry: the library's entries plus the well-formed test entries registered by the driver *)\n"))
	st.WriteString(strings.Replace(c17casesHeader, "From KVGen Require Registry.\n", "", 1))
	st.WriteString(`
Definition T : registry :=
  mk_registry t_tag_names t_tag_by_name t_enum_names t_enums_by_name
              t_bitmask_names t_bitmask_by_name t_type_names t_name_types.
`)
	st.WriteString(c17okDefs("t_", "T"))
	st.WriteString("Definition mism_t_registry_ok := Eval vm_compute in (if registry_ok T then @nil Z else [0]).\nPrint mism_t_registry_ok.\n")
	d.c.IndexCase("mism_t_registry_ok", 0, map[string]any{"kind": "test-registry", "what": "registry_ok does not hold on the test registry (library entries + well-formed test entries)"})
	total = 1
	d.c.Extra("rows_per_table_test_registry", dt.emit(&st, &total))
	return d.c.WriteCases("cases_C17_t.v", st.String(), total)
}

// ---------------------------------------------------------------- replay of one dynamic case

func c17num(m map[string]any, k string) int64 {
	switch v := m[k].(type) {
	case float64:
		return int64(v)
	case int64:
		return v
	case int:
		return int64(v)
	}
	return 0
}

// c17registeredEntries: what was registered (in two calls) is what the registry holds, in both directions.
func c17registeredEntries(c *h.Ctx) {
	for v, n := range c17testEnum {
		got := ttlv.EnumName(int(c17tE), uint32(v))
		back, err := ttlv.EnumByName(int(c17tE), n)
		c.Eval(fmt.Sprintf("t_registered/%d", uint32(v)), true)
		if got != n || err != nil || back != uint32(v) {
			c.Fail("C17/registered-entry-lost", fmt.Sprintf("after registering %d -> %q (enumeration registered in two calls): name of the value is %q, value of the name is %d (%v)", uint32(v), n, got, back, err),
				map[string]any{"kind": "test-registry", "tag": int64(c17tE), "num": int64(v), "name": n})
		}
	}
}

func c17replayDynamic(c *h.Ctx, cas map[string]any) error {
	// the test entries live on private tags only; registering them lets cases found on the test
	// registry replay as well
	tsnap := c17registerTestEntries()
	d := &c17run{c: c, live: tsnap, oracle: true}
	kind, _ := cas["kind"].(string)
	switch kind {
	case "test-registry":
		d.pfx = "t_"
		c17registeredEntries(c)
		d.testRegistryCases()
	case "tag-rt":
		n := c17num(cas, "tag")
		save := d.live.TagNames
		d.live.TagNames = nil
		for _, e := range save {
			if e.Num == n {
				d.live.TagNames = []reg.NumName{e}
			}
		}
		d.live.TagByName = nil
		d.replayTag(n)
	case "enum-rt":
		d.oneEnumWrite(c17enumCase{c17num(cas, "enumtag"), c17num(cas, "tag"), c17num(cas, "value")}, true)
	case "mask-rt":
		d.oneMaskWrite(c17maskCase{c17num(cas, "masktag"), c17num(cas, "tag"), c17num(cas, "value")})
	case "marshal-rt":
		tyName, _ := cas["type"].(string)
		for _, m := range []map[reflect.Type]int{reg.EnumGoTypes(), reg.BitmaskGoTypes()} {
			for ty := range m {
				if ty.String() == tyName {
					c.Eval("replay", true)
					d.reflectOracle(ty, c17num(cas, "value"), cas)
				}
			}
		}
	case "text-rt":
		tyName, _ := cas["type"].(string)
		v := c17num(cas, "value")
		for _, m := range []map[reflect.Type]int{reg.EnumGoTypes(), reg.BitmaskGoTypes()} {
			for ty := range m {
				if ty.String() != tyName {
					continue
				}
				c.Eval("replay", true)
				s, mr := c17marshal(ty, v)
				if !mr.Ok {
					c.Fail("C17/text-rt/marshal-fails", fmt.Sprintf("%s(0x%X).MarshalText: %s", ty, v, mr), cas)
					continue
				}
				r := c17unmarshal(ty, s)
				if !(r.Ok && r.Val == v) {
					sig := "C17/text-rt/enum"
					if ty.Kind() != reflect.Uint32 {
						sig = "C17/text-rt/mask"
						if v < 0 {
							sig += "/bit31"
						}
					}
					c.Fail(sig, fmt.Sprintf("%s(0x%X).MarshalText() = %q, UnmarshalText gives %s", ty, uint32(v), s, r), cas)
				}
			}
		}
	default:
		// reader-only cases (panics): re-run the reader
		if inner, ok := cas["case"].(map[string]any); ok {
			b, _ := json.Marshal(inner)
			var rc c17readCase
			_ = json.Unmarshal(b, &rc)
			if kind == "enum-read" {
				d.oneEnumRead(rc)
			} else if kind == "mask-read" {
				d.oneMaskRead(rc)
			}
		} else if kind == "text-read" {
			tyName, _ := cas["type"].(string)
			text, _ := cas["text"].(string)
			for _, m := range []map[reflect.Type]int{reg.EnumGoTypes(), reg.BitmaskGoTypes()} {
				for ty := range m {
					if ty.String() == tyName {
						c.Eval("replay", true)
						if r := c17unmarshal(ty, text); r.Panic != "" {
							c.Fail("C17/text-read/panic", fmt.Sprintf("%s.UnmarshalText(%q) panicked: %s", ty, text, r.Panic), cas)
						}
					}
				}
			}
		}
	}
	return nil
}

// replayTag re-runs the tag round trip of one number.
func (d *c17run) replayTag(n int64) {
	c := d.c
	c.Eval(fmt.Sprintf("tagw/%d", n), true)
	cas := map[string]any{"kind": "tag-rt", "tag": n}
	ts := ttlv.TagString(int(n))
	wx := c17write(fXML, "Integer", func(e *ttlv.Encoder) { e.Integer(int(n), 1) })
	wj := c17write(fJSON, "Integer", func(e *ttlv.Encoder) { e.Integer(int(n), 1) })
	wt := c17write(fText, "Integer", func(e *ttlv.Encoder) { e.Integer(int(n), 1) })
	if wx.Panic != "" || wj.Panic != "" || wt.Panic != "" {
		c.Fail("C17/tag-rt/writer-panic", fmt.Sprintf("writing tag 0x%X panicked: %s %s %s", n, wx.Panic, wj.Panic, wt.Panic), cas)
		return
	}
	if n >= 0 && n < 1<<31 {
		rx := c17readTagXML(wx.Name, wx.Attr)
		rj := c17readTagJSON(wj.Tag)
		if !(rx.Ok && rx.Val == n) {
			c.Fail("C17/tag-rt/xml", fmt.Sprintf("tag 0x%X is written <%s tag=%v> in XML and read back as %s", n, wx.Name, deref(wx.Attr), rx), cas)
		}
		if !(rj.Ok && rj.Val == n) {
			c.Fail("C17/tag-rt/json", fmt.Sprintf("tag 0x%X is written %q in JSON and read back as %s", n, wj.Tag, rj), cas)
		}
	}
	if wt.Tag != ts || wj.Tag != ts {
		c.Fail("C17/tag-rt/forms-differ", fmt.Sprintf("tag 0x%X: TagString %q, JSON %q, text %q", n, ts, wj.Tag, wt.Tag), cas)
	}
}
