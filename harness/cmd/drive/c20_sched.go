package main

// C20: a cooperative scheduler behind the plan-cache access points of package ttlv
// (ttlv.VerifSetCacheHook, build tag verif). Exactly one worker runs at a time; a schedule
// is a list of worker indices, each entry lets that worker perform its pending cache
// access and run up to its next one.

import (
	"bytes"
	"reflect"
	"runtime"
	"strconv"
	"sync"

	"github.com/ovh/kmip-go/ttlv"
)

func c20Goid() int64 {
	var buf [64]byte
	n := runtime.Stack(buf[:], false)
	// "goroutine 123 [running]:"
	b := buf[:n]
	b = bytes.TrimPrefix(b, []byte("goroutine "))
	if i := bytes.IndexByte(b, ' '); i > 0 {
		id, _ := strconv.ParseInt(string(b[:i]), 10, 64)
		return id
	}
	return -1
}

type c20Worker struct {
	parked chan struct{} // worker -> scheduler: stopped at an access point, or finished
	resume chan struct{} // scheduler -> worker
	done   bool
	points int
}

type c20Sched struct {
	mu      sync.Mutex
	workers map[int64]*c20Worker
}

func (s *c20Sched) hook(cache, op int, ty reflect.Type) {
	id := c20Goid()
	s.mu.Lock()
	w := s.workers[id]
	s.mu.Unlock()
	if w == nil {
		return
	}
	w.points++
	w.parked <- struct{}{}
	<-w.resume
}

// c20RunScheduled runs work[i] on worker i under the schedule, then lets the workers
// finish one after the other. It returns the number of access points each worker went
// through (0 everywhere if the library no longer calls the hook: the run is then simply
// sequential).
func c20RunScheduled(work []func(), sched []int) []int {
	s := &c20Sched{workers: map[int64]*c20Worker{}}
	ws := make([]*c20Worker, len(work))
	for i := range work {
		ws[i] = &c20Worker{parked: make(chan struct{}), resume: make(chan struct{})}
	}
	ttlv.VerifSetCacheHook(s.hook)
	defer ttlv.VerifSetCacheHook(nil)
	for i, f := range work {
		w := ws[i]
		go func() {
			s.mu.Lock()
			s.workers[c20Goid()] = w
			s.mu.Unlock()
			<-w.resume
			f()
			w.done = true
			w.parked <- struct{}{}
		}()
	}
	step := func(i int) {
		w := ws[i]
		if w.done {
			return
		}
		w.resume <- struct{}{}
		<-w.parked
	}
	// bring every worker to its first access point
	for i := range ws {
		step(i)
	}
	for _, i := range sched {
		if i >= 0 && i < len(ws) {
			step(i)
		}
	}
	for i := range ws {
		for !ws[i].done {
			step(i)
		}
	}
	pts := make([]int, len(ws))
	for i, w := range ws {
		pts[i] = w.points
	}
	return pts
}
