package main

// C20, history with REJECTED inputs (oracle only): "after any sequence of other encode and decode
// calls" includes calls that fail.  A batch of malformed inputs (TTLV-aware damage of real messages,
// in all three encodings, plus a few crafted shapes: a structure whose first member has an invalid item
// header, a truncated nested structure, an item announcing more than there is) is decoded - every one is
// rejected or accepted, no matter - and then real messages are decoded again, sequentially and from eight
// goroutines at once: each must give what it gave before the rejected inputs were seen.  Also: a value
// holding a negative big integer decoded twice from the SAME buffer, and from several goroutines at once,
// gives the same value every time (the buffer handed to the decoder is not the decoder's scratch space).

import (
	"bytes"
	"fmt"
	"math/big"
	"sync"

	"github.com/ovh/kmip-go"
	"github.com/ovh/kmip-go/ttlv"

	"verifharness/internal/h"
	"verifharness/internal/tv"
)

func c20DecodeOne(resp bool, in []byte) (string, []byte) {
	class, out := "panic", []byte(nil)
	func() {
		defer func() { _ = recover() }()
		v := c20NewMsg(resp)
		if err := ttlv.UnmarshalTTLV(in, v); err != nil {
			class = "err"
			return
		}
		class, out = "ok", ttlv.MarshalTTLV(v)
	}()
	return class, out
}

func c20CheckAfterRejected(c *h.Ctx, corpus []c20CorpusMsg, seed uint64) {
	if len(corpus) == 0 {
		return
	}
	r := h.NewRand(seed)
	cs := map[string]any{"mode": "after-rejected", "seed": fmt.Sprint(seed)}
	var picks []c20CorpusMsg
	for i := 0; i < 6; i++ {
		picks = append(picks, corpus[r.Intn(len(corpus))])
	}
	type ref struct {
		class string
		out   []byte
	}
	refs := make([]ref, len(picks))
	for i, m := range picks {
		refs[i].class, refs[i].out = c20DecodeOne(m.Resp, append([]byte{}, m.TTLV...))
	}
	// the rejected inputs
	crafted := [][]byte{
		{0x42, 0x00, 0x78, 0x01, 0, 0, 0, 8, 0x42, 0x00, 0x77, 0x0B, 0, 0, 0, 0},
		{0x42, 0x00, 0x7B, 0x01, 0, 0, 0, 8, 0x42, 0x00, 0x7A, 0x0B, 0, 0, 0, 0},
		{0x42, 0x00, 0x78, 0x01, 0, 0, 0, 16, 0x42, 0x00, 0x77, 0x01, 0, 0, 0, 32, 0, 0, 0, 0, 0, 0, 0, 0},
		{0x42, 0x00, 0x78, 0x01, 0, 0, 0, 16, 0x42, 0x00, 0x77, 0x01, 0, 0, 0, 8, 0x42, 0x00, 0x69, 0x00, 0, 0, 0, 0},
		{0x42, 0x00, 0x78, 0x01, 0xFF, 0xFF, 0xFF, 0xF8},
	}
	nrej := 0
	for k := 0; k < 40; k++ {
		var in []byte
		if k < len(crafted) {
			in = crafted[k]
		} else {
			in, _ = tv.Mutate(r, picks[k%len(picks)].TTLV)
		}
		for _, resp := range []bool{false, true} {
			if cl, _ := c20DecodeOne(resp, append([]byte{}, in...)); cl != "ok" {
				nrej++
			}
		}
		func() {
			defer func() { _ = recover() }()
			var v ttlv.Value
			_ = ttlv.UnmarshalTTLV(append([]byte{}, in...), &v)
		}()
	}
	c.CountN("after-rejected:rejected-inputs", nrej)
	// sequentially
	for i, m := range picks {
		cl, out := c20DecodeOne(m.Resp, append([]byte{}, m.TTLV...))
		if cl != refs[i].class || !bytes.Equal(out, refs[i].out) {
			c.Fail("C20/history-dependent/decode-after-rejected-input", fmt.Sprintf("%s decoded after %d rejected inputs gives %s/%d bytes, before them %s/%d bytes", m.File, nrej, cl, len(out), refs[i].class, len(refs[i].out)), cs)
			return
		}
	}
	// concurrently
	var wg sync.WaitGroup
	bad := make([]string, 8)
	for g := 0; g < 8; g++ {
		wg.Add(1)
		go func(g int) {
			defer wg.Done()
			for rep := 0; rep < 4; rep++ {
				for i, m := range picks {
					cl, out := c20DecodeOne(m.Resp, append([]byte{}, m.TTLV...))
					if cl != refs[i].class || !bytes.Equal(out, refs[i].out) {
						bad[g] = fmt.Sprintf("%s: %s/%d bytes, before %s/%d bytes", m.File, cl, len(out), refs[i].class, len(refs[i].out))
						return
					}
				}
			}
		}(g)
	}
	wg.Wait()
	for _, b := range bad {
		if b != "" {
			c.Fail("C20/history-dependent/concurrent-decode-after-rejected-input", "after "+fmt.Sprint(nrej)+" rejected inputs, concurrent decodes differ from the decode before them: "+b, cs)
			return
		}
	}
}

// c20CheckNegBig: a request whose custom attribute holds a negative big integer, decoded twice from one
// buffer and concurrently from one shared buffer.
func c20CheckNegBig(c *h.Ctx, seed uint64) {
	r := h.NewRand(seed)
	cs := map[string]any{"mode": "negative-bigint", "seed": fmt.Sprint(seed)}
	n := new(big.Int).Lsh(big.NewInt(int64(1+r.Intn(1<<20))), uint(r.Intn(200)))
	n.Neg(n)
	tree := ttlv.Value{Tag: 0x420008, Value: ttlv.Struct{
		{Tag: 0x42000A, Value: "x-neg"},
		{Tag: 0x42000B, Value: n},
	}}
	buf := ttlv.MarshalTTLV(&tree)
	orig := append([]byte{}, buf...)
	dec := func() (string, string) {
		cl, s := "panic", ""
		func() {
			defer func() { _ = recover() }()
			var a kmip.Attribute
			if err := ttlv.UnmarshalTTLV(buf, &a); err != nil {
				cl = "err"
				return
			}
			cl, s = "ok", fmt.Sprint(a.AttributeValue)
		}()
		return cl, s
	}
	c1, s1 := dec()
	if !bytes.Equal(buf, orig) {
		c.Fail("C20/decode-rewrites-input", "UnmarshalTTLV modified the caller's buffer (attribute holding the big integer "+n.String()+")", cs)
		return
	}
	c2, s2 := dec()
	if c1 != c2 || s1 != s2 {
		c.Fail("C20/decode-twice-differs", fmt.Sprintf("decoding the same buffer twice gives %s %s then %s %s", c1, s1, c2, s2), cs)
		return
	}
	var wg sync.WaitGroup
	var mu sync.Mutex
	diff := ""
	for g := 0; g < 8; g++ {
		wg.Add(1)
		go func() {
			defer wg.Done()
			for k := 0; k < 20; k++ {
				if cl, s := dec(); cl != c1 || s != s1 {
					mu.Lock()
					diff = cl + " " + s
					mu.Unlock()
					return
				}
			}
		}()
	}
	wg.Wait()
	if diff != "" {
		c.Fail("C20/concurrent-calls-influence-each-other/shared-input", fmt.Sprintf("concurrent decodes of one buffer: %s, alone: %s %s", diff, c1, s1), cs)
	}
}

// c20CheckCallerSlices: encoding a byte string that is a window on a larger buffer of the caller (secrets
// stored back to back) leaves the rest of that buffer alone, so what the neighbours encode to does not
// depend on which of them was encoded before.
func c20CheckCallerSlices(c *h.Ctx) {
	for l := 1; l <= 17; l++ {
		for _, enc := range []string{"ttlv", "xml", "json"} {
			ring := bytes.Repeat([]byte{0xAB}, 64)
			orig := bytes.Clone(ring)
			cs := map[string]any{"mode": "caller-slice", "length": l, "encoding": enc}
			func() {
				defer func() { _ = recover() }()
				v := ttlv.Value{Tag: 0x420043, Value: ring[8 : 8+l]}
				pl := kmip.Attribute{AttributeName: "x-window", AttributeValue: ttlv.Value{Tag: 0x42000B, Value: ring[32 : 32+l]}}
				_ = c20Marshal(enc, &v)
				_ = c20Marshal(enc, &pl)
			}()
			c.Eval(fmt.Sprintf("caller-slice/%s/%d", enc, l), true)
			c.Count("caller-slice")
			if !bytes.Equal(ring, orig) {
				c.Fail("C20/encode-writes-into-callers-memory", fmt.Sprintf("encoding (%s) a %d-byte window of a 64-byte buffer changed the buffer outside the window: %x", enc, l, ring), cs)
				return
			}
		}
	}
}
