package main

// C17, concurrent use: the names written for a number do not depend on what other goroutines
// convert at the same time (oracle only: the model's conversions are pure functions).

import (
	"fmt"
	"sync"

	"github.com/ovh/kmip-go"
	"github.com/ovh/kmip-go/ttlv"

	"verifharness/internal/h"
)

func c17Concurrent(c *h.Ctx) {
	masks := []kmip.CryptographicUsageMask{
		kmip.CryptographicUsageSign | kmip.CryptographicUsageVerify, kmip.CryptographicUsageEncrypt | kmip.CryptographicUsageDecrypt | kmip.CryptographicUsageWrapKey,
		kmip.CryptographicUsageMACGenerate | kmip.CryptographicUsageMACVerify | kmip.CryptographicUsageDeriveKey, kmip.CryptographicUsageContentCommitment | kmip.CryptographicUsageKeyAgreement,
		kmip.CryptographicUsageCertificateSign, kmip.CryptographicUsageCRLSign | kmip.CryptographicUsageGenerateCryptogram, kmip.CryptographicUsageMask(0x000FFFFF), kmip.CryptographicUsageMask(1 << 30),
	}
	type forms struct{ text, str, xml string }
	one := func(m kmip.CryptographicUsageMask) (f forms) {
		defer func() {
			if r := recover(); r != nil {
				f.text = fmt.Sprint("panic: ", r)
			}
		}()
		b, _ := m.MarshalText()
		f.text = string(b)
		f.str = ttlv.BitmaskStr(m, " | ")
		v := ttlv.Value{Tag: kmip.TagCryptographicUsageMask, Value: m}
		f.xml = string(ttlv.MarshalXML(&v))
		return f
	}
	want := make([]forms, len(masks))
	for i, m := range masks {
		want[i] = one(m)
	}
	bad := make([]string, len(masks))
	var wg sync.WaitGroup
	for g := range masks {
		wg.Add(1)
		go func(g int) {
			defer wg.Done()
			for it := 0; it < 3000 && bad[g] == ""; it++ {
				if got := one(masks[g]); got != want[g] {
					bad[g] = fmt.Sprintf("mask 0x%X converted while other goroutines convert other masks: %q / %q / %q, alone: %q / %q / %q", uint32(masks[g]), got.text, got.str, got.xml, want[g].text, want[g].str, want[g].xml)
				}
			}
		}(g)
	}
	wg.Wait()
	c.Eval("concurrent-mask-names", true)
	c.Count("leg:concurrent-mask-names")
	for g, s := range bad {
		if s != "" {
			c.Fail("C17/names-depend-on-concurrent-conversions", s, map[string]any{"kind": "concurrent-mask-names", "goroutine": g})
			break
		}
	}
}
