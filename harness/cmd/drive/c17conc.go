package main

// C17, concurrent use: the names written for a number do not depend on what other goroutines
// convert at the same time (oracle only: the model's conversions are pure functions).

import (
	"github.com/ovh/kmip-go/payloads"
	"fmt"
	"sync"

	"github.com/ovh/kmip-go"
	"github.com/ovh/kmip-go/ttlv"

	"verifharness/internal/h"
)

// c17ForeignTagEnums: a generic value holding an enumeration of a REGISTERED tag, written under another tag
// (the value of a custom attribute): what the text encodings write for it is read back as the same number.
func c17ForeignTagEnums(c *h.Ctx) {
	for _, tv := range []struct {
		tag int
		val uint32
	}{{kmip.TagCryptographicAlgorithm, 3}, {kmip.TagObjectType, 2}, {kmip.TagOperation, 10}, {kmip.TagCryptographicAlgorithm, 0x80000001}, {kmip.TagState, 1}} {
		m := kmip.RequestMessage{Header: kmip.RequestHeader{ProtocolVersion: kmip.V1_4, BatchCount: 1},
			BatchItem: []kmip.RequestBatchItem{{Operation: kmip.OperationAddAttribute, RequestPayload: &payloads.AddAttributeRequestPayload{
				UniqueIdentifier: "id", Attribute: kmip.Attribute{AttributeName: "x-enum", AttributeValue: ttlv.Value{Tag: tv.tag, Value: ttlv.Enum(tv.val)}}}}}}
		for _, f := range []string{"xml", "json"} {
			res := func() (s string) {
				defer func() {
					if r := recover(); r != nil {
						s = fmt.Sprint("panic: ", r)
					}
				}()
				bin := ttlv.MarshalTTLV(&m)
				var doc []byte
				var back kmip.RequestMessage
				var err error
				if f == "xml" {
					doc = ttlv.MarshalXML(&m)
					err = ttlv.UnmarshalXML(doc, &back)
				} else {
					doc = ttlv.MarshalJSON(&m)
					err = ttlv.UnmarshalJSON(doc, &back)
				}
				if err != nil {
					return "own " + f + " output rejected: " + err.Error()
				}
				if string(ttlv.MarshalTTLV(&back)) != string(bin) {
					return "read back as another value"
				}
				return ""
			}()
			c.Eval(fmt.Sprintf("foreign-tag-enum/%x/%x/%s", tv.tag, tv.val, f), true)
			if res != "" {
				c.Fail("C17/generic-enum-under-foreign-tag/"+f, fmt.Sprintf("enumeration 0x%X of tag 0x%06X held in a generic value under the tag of a custom attribute's value: %s", tv.val, tv.tag, res),
					map[string]any{"kind": "concurrent-mask-names", "tag": tv.tag, "value": tv.val, "format": f})
			}
		}
	}
}

func c17Concurrent(c *h.Ctx) {
	c17ForeignTagEnums(c)
	masks := []kmip.CryptographicUsageMask{
		kmip.CryptographicUsageSign | kmip.CryptographicUsageVerify, kmip.CryptographicUsageEncrypt | kmip.CryptographicUsageDecrypt | kmip.CryptographicUsageWrapKey,
		kmip.CryptographicUsageMACGenerate | kmip.CryptographicUsageMACVerify | kmip.CryptographicUsageDeriveKey, kmip.CryptographicUsageContentCommitment | kmip.CryptographicUsageKeyAgreement,
		kmip.CryptographicUsageCertificateSign, kmip.CryptographicUsageCRLSign | kmip.CryptographicUsageGenerateCryptogram, kmip.CryptographicUsageMask(0x000FFFFF), kmip.CryptographicUsageMask(1 << 30),
	}
	type forms struct{ text, str, xml string }
	one := func(m kmip.CryptographicUsageMask) (f forms) {
		defer func() {
			if r := recover(); r != nil {
				f.text = fmt.Sprint("panic: ", r)
			}
		}()
		b, _ := m.MarshalText()
		f.text = string(b)
		f.str = ttlv.BitmaskStr(m, " | ")
		v := ttlv.Value{Tag: kmip.TagCryptographicUsageMask, Value: m}
		f.xml = string(ttlv.MarshalXML(&v))
		return f
	}
	want := make([]forms, len(masks))
	for i, m := range masks {
		want[i] = one(m)
	}
	bad := make([]string, len(masks))
	var wg sync.WaitGroup
	for g := range masks {
		wg.Add(1)
		go func(g int) {
			defer wg.Done()
			for it := 0; it < 3000 && bad[g] == ""; it++ {
				if got := one(masks[g]); got != want[g] {
					bad[g] = fmt.Sprintf("mask 0x%X converted while other goroutines convert other masks: %q / %q / %q, alone: %q / %q / %q", uint32(masks[g]), got.text, got.str, got.xml, want[g].text, want[g].str, want[g].xml)
				}
			}
		}(g)
	}
	wg.Wait()
	// enumeration names as well: every goroutine writes its own (tag, value) by name
	type ecase struct {
		v    any
		want string
	}
	evals := []any{kmip.ObjectTypeSymmetricKey, kmip.ObjectTypeCertificate, kmip.CryptographicAlgorithmAES, kmip.CryptographicAlgorithmRSA, kmip.CryptographicAlgorithmDES,
		kmip.OperationGet, kmip.OperationLocate, kmip.BlockCipherModeGCM, kmip.ResultReasonItemNotFound, kmip.KeyFormatTypeRaw, kmip.StateActive, kmip.HashingAlgorithmSHA_256}
	ename := func(v any) (s string) {
		defer func() {
			if r := recover(); r != nil {
				s = fmt.Sprint("panic: ", r)
			}
		}()
		txt := ""
		if tm, ok := v.(interface{ MarshalText() ([]byte, error) }); ok {
			b, _ := tm.MarshalText()
			txt = string(b)
		}
		xe, je := ttlv.NewXMLEncoder(), ttlv.NewJSONEncoder()
		xe.TagAny(kmip.TagAttributeValue, v)
		je.TagAny(kmip.TagAttributeValue, v)
		return txt + "|" + string(xe.Bytes()) + "|" + string(je.Bytes())
	}
	ewant := make([]string, len(evals))
	for i, v := range evals {
		ewant[i] = ename(v)
	}
	ebad := make([]string, len(evals))
	var wg2 sync.WaitGroup
	for g := range evals {
		wg2.Add(1)
		go func(g int) {
			defer wg2.Done()
			for it := 0; it < 4000 && ebad[g] == ""; it++ {
				if got := ename(evals[g]); got != ewant[g] {
					ebad[g] = fmt.Sprintf("%T value written while other goroutines write other enumeration values: %q, alone: %q", evals[g], got, ewant[g])
				}
			}
		}(g)
	}
	wg2.Wait()
	for g, s := range ebad {
		if s != "" {
			c.Fail("C17/names-depend-on-concurrent-conversions", s, map[string]any{"kind": "concurrent-mask-names", "goroutine": g})
			break
		}
	}
	c.Eval("concurrent-mask-names", true)
	c.Count("leg:concurrent-mask-names")
	for g, s := range bad {
		if s != "" {
			c.Fail("C17/names-depend-on-concurrent-conversions", s, map[string]any{"kind": "concurrent-mask-names", "goroutine": g})
			break
		}
	}
}
