package main

// C05: message elements are gated by the protocol version in the header.
//
// Implementation side: ttlv.MarshalTTLV / UnmarshalTTLV on messages whose version-gated fields
// are populated REGARDLESS of the message version (generator option IgnoreVersions).
// Oracle (property text on the implementation), using the PINNED table pinned/versions.json
// (which element was introduced at which version - independent of the library's annotations):
//   sound+complete: encoding the message at version V gives exactly the bytes obtained after
//     removing (zeroing) every element the pinned table does not allow at V, and those bytes
//     decode back to that stripped message (nothing valid at V is missing);
//   decode accepts later elements: the encoding of a fully populated 1.4 message whose header
//     version is patched to 1.0..1.3 still decodes to the same content.
// Model rows: (root, value, bytes, decoded) against KmipCodec (the interpreter's gates run on
// the schema regenerated from /repo; Props/C05.v pins the annotations themselves).

import (
	"github.com/ovh/kmip-go/ttlv"
	"bytes"
	"encoding/json"
	"fmt"
	"os"
	"path/filepath"
	"reflect"
	"strings"

	"github.com/ovh/kmip-go"

	"verifharness/internal/gv"
	"verifharness/internal/h"
)

func init() { h.Register("C05", driveC05) }

type c05pin struct {
	Struct string `json:"struct"`
	Field  string `json:"field"`
	Tag    int    `json:"tag"`
	Start  []int  `json:"start"`
	End    []int  `json:"end"`
}

func c05LoadPins(verif string) (map[string]c05pin, error) {
	b, err := os.ReadFile(filepath.Join(verif, "pinned", "versions.json"))
	if err != nil {
		return nil, err
	}
	var f struct {
		Fields []c05pin `json:"fields"`
	}
	if err := json.Unmarshal(b, &f); err != nil {
		return nil, err
	}
	m := map[string]c05pin{}
	for _, p := range f.Fields {
		m[p.Struct+"."+p.Field] = p
	}
	return m, nil
}

func (p c05pin) allows(v kmip.ProtocolVersion) bool {
	cmp := func(a []int) int {
		if int(v.ProtocolVersionMajor) != a[0] {
			if int(v.ProtocolVersionMajor) < a[0] {
				return -1
			}
			return 1
		}
		if int(v.ProtocolVersionMinor) < a[1] {
			return -1
		}
		if int(v.ProtocolVersionMinor) > a[1] {
			return 1
		}
		return 0
	}
	if p.Start != nil && cmp(p.Start) < 0 {
		return false
	}
	if p.End != nil && cmp(p.End) > 0 {
		return false
	}
	return true
}

// c05Strip zeroes, everywhere in the value, the fields the pinned table does not allow at v;
// it returns the names of the populated fields it removed.
func c05Strip(val reflect.Value, v kmip.ProtocolVersion, pins map[string]c05pin, removed *[]string) {
	switch val.Kind() {
	case reflect.Pointer:
		if !val.IsNil() {
			c05Strip(val.Elem(), v, pins, removed)
		}
	case reflect.Interface:
		if !val.IsNil() {
			e := val.Elem()
			if e.Kind() == reflect.Pointer {
				c05Strip(e, v, pins, removed)
			} else if val.CanSet() {
				// a value held directly in an interface is not addressable: strip a copy and put it back
				cp := reflect.New(e.Type()).Elem()
				cp.Set(e)
				c05Strip(cp, v, pins, removed)
				val.Set(cp)
			}
		}
	case reflect.Slice:
		if val.Type().Elem().Kind() == reflect.Uint8 {
			return
		}
		for i := 0; i < val.Len(); i++ {
			c05Strip(val.Index(i), v, pins, removed)
		}
	case reflect.Struct:
		tn := gv.TypeName(val.Type())
		for i := 0; i < val.NumField(); i++ {
			f := val.Type().Field(i)
			if !f.IsExported() {
				continue
			}
			fv := val.Field(i)
			if p, ok := pins[tn+"."+f.Name]; ok && !p.allows(v) {
				if fv.CanSet() && !fv.IsZero() {
					*removed = append(*removed, tn+"."+f.Name)
					fv.SetZero()
				}
				continue
			}
			if fv.CanAddr() || fv.Kind() == reflect.Pointer || fv.Kind() == reflect.Interface || fv.Kind() == reflect.Slice {
				c05Strip(fv, v, pins, removed)
			}
		}
	}
}

// c05PatchVersion rewrites the first ProtocolVersionMinor item (tag 0x42006B, Integer) of the encoding.
func c05PatchVersion(b []byte, minor int32) ([]byte, bool) {
	pat := []byte{0x42, 0x00, 0x6B, 0x02, 0, 0, 0, 4}
	i := bytes.Index(b, pat)
	if i < 0 || i+12 > len(b) {
		return nil, false
	}
	out := append([]byte{}, b...)
	out[i+8], out[i+9], out[i+10], out[i+11] = byte(minor>>24), byte(minor>>16), byte(minor>>8), byte(minor)
	return out, true
}

func c05SetVersion(msg any, v kmip.ProtocolVersion) {
	switch m := msg.(type) {
	case *kmip.RequestMessage:
		m.Header.ProtocolVersion = v
	case *kmip.ResponseMessage:
		m.Header.ProtocolVersion = v
	}
}

// c05Piecewise writes a request / response message through Encoder.Struct with the header and the batch
// items handed over one by one (nil: not a message type handled here).
func c05Piecewise(m any) (out []byte, panicked string) {
	defer func() {
		if r := recover(); r != nil {
			panicked = fmt.Sprint(r)
		}
	}()
	enc := ttlv.NewTTLVEncoder()
	switch msg := m.(type) {
	case *kmip.RequestMessage:
		enc.Struct(kmip.TagRequestMessage, func(e *ttlv.Encoder) {
			e.Any(&msg.Header)
			for i := range msg.BatchItem {
				e.TagAny(kmip.TagBatchItem, &msg.BatchItem[i])
			}
		})
	case *kmip.ResponseMessage:
		enc.Struct(kmip.TagResponseMessage, func(e *ttlv.Encoder) {
			e.Any(&msg.Header)
			for i := range msg.BatchItem {
				e.TagAny(kmip.TagBatchItem, &msg.BatchItem[i])
			}
		})
	default:
		return nil, ""
	}
	return append([]byte{}, enc.Bytes()...), ""
}

func driveC05(c *h.Ctx) error {
	c.Rule("a case is a KMIP message of the coverage plan (every operation both directions, objects, attributes, ...) generated at version V in 1.0..1.4 with ALL its version-gated elements populated whether or not V allows them (61 gated elements in 20 structures); per case: encode at V, compare with the encoding of the message stripped by the pinned table, decode; plus fully populated 1.4 encodings re-read under header versions 1.0-1.3; non-trivial = at least one gated element was populated")
	pins, err := c05LoadPins(c.Verif)
	if err != nil {
		return err
	}
	// the process has seen KMIP 2.x headers (a server decodes the header of a request before it refuses its
	// version) and has encoded gated structures on their own (a log line) before any 1.x message is encoded:
	// neither has any bearing on what a 1.x message contains
	func() {
		defer func() { _ = recover() }()
		for minor := int32(0); minor <= 2; minor++ {
			m := kmip.RequestMessage{Header: kmip.RequestHeader{ProtocolVersion: kmip.ProtocolVersion{ProtocolVersionMajor: 2, ProtocolVersionMinor: minor}, BatchCount: 0}}
			b := ttlv.MarshalTTLV(&m)
			var back kmip.RequestMessage
			_ = ttlv.UnmarshalTTLV(b, &back)
			_ = ttlv.MarshalXML(&m)
		}
	}()
	plan := gv.CoveragePlan()
	var idx []int
	if c.Replay != nil {
		cs, _ := c.Replay["case"].(map[string]any)
		idx = []int{int(cs["plan_index"].(float64))}
	} else {
		stride := c.Pick(3, 1)
		for i := range plan {
			if i%stride == int(c.Seed)%stride {
				idx = append(idx, i)
			}
		}
	}
	var rows []string
	seenGated := map[string]map[string]bool{} // field -> version -> populated seen
	for _, i := range idx {
		cas := plan[i]
		cas.Opts.IgnoreVersions = true
		gen := func() any {
			seed := c.Seed
			if c.Replay != nil {
				cs, _ := c.Replay["case"].(map[string]any)
				seed = uint64(cs["gen_seed"].(float64))
			}
			return msgPtr(cas.Gen(h.NewRand(seed).Fork(uint64(i + 1))))
		}
		m := gen()
		root := msgRoot(m)
		caseJSON := map[string]any{"plan_index": i, "gen_seed": c.Seed, "version": cas.Ver.String(), "message": gv.Describe(reflect.ValueOf(m).Elem().Interface())}
		b1, p := safeMarshal(m)
		if p != "" {
			c.Fail("C05/encoder-panics", "MarshalTTLV panicked: "+p, caseJSON)
			continue
		}
		ms := gen()
		var removed []string
		c05Strip(reflect.ValueOf(ms), cas.Ver, pins, &removed)
		caseJSON["gated_elements_populated_but_not_allowed"] = removed
		for _, f := range removed {
			if seenGated[f] == nil {
				seenGated[f] = map[string]bool{}
			}
			seenGated[f][cas.Ver.String()] = true
		}
		vin, err := gv.CoqValue(reflect.ValueOf(m).Elem())
		if err != nil {
			return err
		}
		c.Eval(vin, len(removed) > 0)
		c.Count(fmt.Sprintf("version:%s", cas.Ver))
		c.CountN("gated-elements-stripped", len(removed))
		if len(rows)%53 == 0 {
			c.Sample(caseJSON)
		}
		b2, p2 := safeMarshal(ms)
		if p2 != "" {
			c.Fail("C05/encoder-panics", "MarshalTTLV panicked: "+p2, caseJSON)
			continue
		}
		if !bytes.Equal(b1, b2) {
			sig := "C05/gate/element-not-allowed-at-version-is-emitted"
			if len(b1) < len(b2) {
				sig = "C05/gate/element-allowed-at-version-is-missing"
			}
			c.Fail(sig, fmt.Sprintf("at version %s the encoding (%d bytes) differs from the encoding of the message stripped to the elements the pinned table allows (%d bytes)", cas.Ver, len(b1), len(b2)), caseJSON)
		}
		// the same message written piece by piece through the public Encoder API (header through its own
		// Any call, then each batch item): the version the header sets gates everything written after it
		if pw, pp := c05Piecewise(m); pp == "" && pw != nil {
			c.Count("piecewise-encoding")
			if !bytes.Equal(pw, b2) {
				sig := "C05/gate/piecewise/element-not-allowed-at-version-is-emitted"
				if len(pw) < len(b2) {
					sig = "C05/gate/piecewise/element-allowed-at-version-is-missing"
				}
				c.Fail(sig, fmt.Sprintf("at version %s the message written piece by piece (Encoder.Struct{Any(header); TagAny(item)...}, %d bytes) differs from the encoding of the message stripped to the elements the pinned table allows (%d bytes)", cas.Ver, len(pw), len(b2)), caseJSON)
			}
		}
		// the same message handed to the encoder BY VALUE (its fields are then not addressable): same bytes
		func() {
			defer func() { _ = recover() }()
			bv := ttlv.MarshalTTLV(reflect.ValueOf(m).Elem().Interface())
			c.Count("by-value-encoding")
			if !bytes.Equal(bv, b2) {
				sig := "C05/gate/by-value/element-not-allowed-at-version-is-emitted"
				if len(bv) < len(b2) {
					sig = "C05/gate/by-value/element-allowed-at-version-is-missing"
				}
				c.Fail(sig, fmt.Sprintf("at version %s the message passed by value to MarshalTTLV (%d bytes) differs from the encoding of the message stripped to the elements the pinned table allows (%d bytes)", cas.Ver, len(bv), len(b2)), caseJSON)
			}
		}()
		// the same in the other encodings: the gate is the encoder's, not the binary writer's
		for _, tf := range []struct {
			name string
			enc  func(any) []byte
		}{{"xml", func(v any) []byte { return ttlv.MarshalXML(v) }}, {"json", func(v any) []byte { return ttlv.MarshalJSON(v) }}, {"text", func(v any) []byte { return []byte(ttlv.MarshalText(v)) }}} {
			var t1, t2 []byte
			pp := ""
			func() {
				defer func() {
					if r := recover(); r != nil {
						pp = fmt.Sprint(r)
					}
				}()
				t1 = append([]byte{}, tf.enc(m)...)
				t2 = append([]byte{}, tf.enc(ms)...)
			}()
			c.Count("text-encoding:" + tf.name)
			if pp != "" {
				continue // not representable in that encoding (C04's subject)
			}
			if !bytes.Equal(t1, t2) {
				sig := "C05/gate/" + tf.name + "/element-not-allowed-at-version-is-emitted"
				if len(t1) < len(t2) {
					sig = "C05/gate/" + tf.name + "/element-allowed-at-version-is-missing"
				}
				c.Fail(sig, fmt.Sprintf("at version %s the %s encoding (%d bytes) differs from the %s encoding of the message stripped to the elements the pinned table allows (%d bytes)", cas.Ver, tf.name, len(t1), tf.name, len(t2)), caseJSON)
			}
		}
		out := newMsgLike(m)
		derr, dp := safeUnmarshal(b1, out)
		obs := ""
		switch {
		case dp != "":
			c.Fail("C05/decoder-panics", dp, caseJSON)
			obs = "OPanic"
		case derr != nil:
			c.Fail("C05/own-output-rejected", derr.Error(), caseJSON)
			obs = "OErr"
		default:
			vout, err := gv.CoqValue(reflect.ValueOf(out).Elem())
			if err != nil {
				return err
			}
			vs, _ := gv.CoqValue(reflect.ValueOf(ms).Elem())
			if gv.NormalizeTerm(vout) != gv.NormalizeTerm(vs) {
				caseJSON["first_difference"] = gv.Diff(reflect.ValueOf(ms).Elem(), reflect.ValueOf(out).Elem())
				c.Fail("C05/gate/valid-element-lost-or-altered", "decoding the encoding at "+cas.Ver.String()+" does not give back the elements valid at that version", caseJSON)
			}
			obs = "OOk (" + vout + ")"
		}
		rows = append(rows, fmt.Sprintf("(%q, %s, %s, %s)", root, vin, h.HexBytes(b1), obs))
		c.IndexCase("mism_msg", len(rows)-1, caseJSON)

		// decoding accepts later-version elements under an earlier header version
		if cas.Ver == kmip.V1_4 {
			for _, minor := range []int32{0, 1, 2, 3} {
				pb, ok := c05PatchVersion(b1, minor)
				if !ok {
					continue
				}
				v := kmip.ProtocolVersion{ProtocolVersionMajor: 1, ProtocolVersionMinor: minor}
				want := gen()
				c05SetVersion(want, v)
				got := newMsgLike(m)
				derr, dp := safeUnmarshal(pb, got)
				cj := map[string]any{"plan_index": i, "gen_seed": c.Seed, "version": "1.4 patched to " + v.String(), "message": caseJSON["message"]}
				c.Count("later-elements-under-earlier-version")
				if dp != "" || derr != nil {
					c.Fail("C05/decode/later-element-rejected", fmt.Sprintf("a 1.4 encoding read under header version %s is rejected: %v %s", v, derr, dp), cj)
					continue
				}
				gs, _ := gv.CoqValue(reflect.ValueOf(got).Elem())
				ws, _ := gv.CoqValue(reflect.ValueOf(want).Elem())
				if gv.NormalizeTerm(gs) != gv.NormalizeTerm(ws) {
					cj["first_difference"] = gv.Diff(reflect.ValueOf(want).Elem(), reflect.ValueOf(got).Elem())
					c.Fail("C05/decode/later-element-dropped", fmt.Sprintf("a 1.4 encoding read under header version %s loses content", v), cj)
				}
			}
		}
	}
	nf := 0
	for range seenGated {
		nf++
	}
	c.Extra("gated_elements_exercised_out_of_range", nf)
	c.Extra("gated_elements_pinned", len(pins))
	var sb strings.Builder
	sb.WriteString("From Coq Require Import ZArith List Bool String.\nFrom KV Require Import Base Wire Cursor Schema Cases CodecRows KmipCodec.\nImport ListNotations.\nOpen Scope Z_scope.\nOpen Scope string_scope.\n")
	d2, e2 := h.Chunk("mrows", "string * value * list Z * obs value", rows, 40)
	sb.WriteString(d2)
	fmt.Fprintf(&sb, "Definition mism_msg := Eval vm_compute in bad_idx row_msg %s 0.\nPrint mism_msg.\n", e2)
	return c.WriteCases("cases_C05.v", sb.String(), len(rows))
}
