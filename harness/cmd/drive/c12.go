package main

// C12 - the client turns every protocol-violating server response into an error.
//
// The driver scripts response messages (every combination of header count, item count, per-item
// operation, status, reason, message, payload presence and payload type), hands them to the real
// client either directly (a terminal middleware returns the scripted *kmip.ResponseMessage: any
// payload type can be expressed) or over the wire (a scripted server on a net.Pipe sends the
// encoded message and the real decoder builds what the client sees), calls the real
// Request / ExecContext (all fluent builders) / Batch+Unwrap / DialContext, and
//   - evaluates the property's own statement on the outcome (oracle), and
//   - writes (call, response as seen by the client, observed outcome) rows for the Rocq model.

import (
	"context"
	"encoding/binary"
	"encoding/json"
	"errors"
	"fmt"
	"io"
	"net"
	"os"
	"reflect"
	"sort"
	"strings"
	"time"

	"github.com/ovh/kmip-go"
	"github.com/ovh/kmip-go/kmipclient"
	"github.com/ovh/kmip-go/payloads"
	"github.com/ovh/kmip-go/ttlv"

	"verifharness/internal/h"
)

func init() { h.Register("C12", driveC12) }

// ------------------------------------------------------------------ case description (JSON, replayable)

type c12Pl struct {
	Kind string `json:"kind"` // nil | resp | req | unknown
	Op   uint32 `json:"op,omitempty"`
	Vers []int  `json:"vers,omitempty"` // DiscoverVersions response: indexes into allVers
}

type c12Item struct {
	Op     uint32 `json:"op"`
	Status uint32 `json:"status"`
	Reason uint32 `json:"reason"`
	Msg    string `json:"msg"`
	Pl     c12Pl  `json:"payload"`
}

type c12Case struct {
	Mode      string    `json:"mode"`      // direct | wire
	API       string    `json:"api"`       // request | exec | batch | dial
	Builder   int       `json:"builder"`   // exec/request: index into c12Builders
	Ops       []int     `json:"ops"`       // batch: builder indexes of the batched requests
	BuildErr  bool      `json:"build_err"` // the fluent builder carries an initialisation error
	Transport string    `json:"transport"` // msg | fail | garbage
	Count     int32     `json:"count"`
	Items     []c12Item `json:"items"`
	IDMode    int       `json:"id_mode,omitempty"`  // direct: the response items echo the request items' unique batch item IDs: 1 in order, 2 reversed
	Client    []int     `json:"client,omitempty"`   // dial: configured versions (indexes into allVers)
	Enforced  int       `json:"enforced,omitempty"` // dial: 1+index of the enforced version, 0 = none
}

// ------------------------------------------------------------------ fluent builders (every request the fluent API can send)

type c12Builder struct {
	name string
	op   kmip.Operation
	mk   func(c *kmipclient.Client) (kmipclient.PayloadBuilder, func(context.Context) (kmip.OperationPayload, error))
	bad  func(c *kmipclient.Client) (kmipclient.PayloadBuilder, func(context.Context) (kmip.OperationPayload, error))
}

// c12x adapts a typed executor: the typed result is converted to the interface only when there is no error.
func c12x[Req, Resp kmip.OperationPayload](ex kmipclient.Executor[Req, Resp]) (kmipclient.PayloadBuilder, func(context.Context) (kmip.OperationPayload, error)) {
	return ex, func(ctx context.Context) (kmip.OperationPayload, error) {
		r, err := ex.ExecContext(ctx)
		if err != nil {
			return nil, err
		}
		return r, nil
	}
}

var c12Builders = []c12Builder{
	{name: "Activate", op: kmip.OperationActivate, mk: func(c *kmipclient.Client) (kmipclient.PayloadBuilder, func(context.Context) (kmip.OperationPayload, error)) {
		return c12x(c.Activate("id"))
	}},
	{name: "AddAttribute", op: kmip.OperationAddAttribute, mk: func(c *kmipclient.Client) (kmipclient.PayloadBuilder, func(context.Context) (kmip.OperationPayload, error)) {
		return c12x(c.AddAttribute("id", kmip.AttributeNameContactInformation, "me").Executor)
	}},
	{name: "Archive", op: kmip.OperationArchive, mk: func(c *kmipclient.Client) (kmipclient.PayloadBuilder, func(context.Context) (kmip.OperationPayload, error)) {
		return c12x(c.Archive("id"))
	}},
	{name: "Recover", op: kmip.OperationRecover, mk: func(c *kmipclient.Client) (kmipclient.PayloadBuilder, func(context.Context) (kmip.OperationPayload, error)) {
		return c12x(c.Recover("id"))
	}},
	{name: "Create", op: kmip.OperationCreate, mk: func(c *kmipclient.Client) (kmipclient.PayloadBuilder, func(context.Context) (kmip.OperationPayload, error)) {
		return c12x(c.Create().AES(256, kmip.CryptographicUsageEncrypt).Executor)
	}},
	{name: "CreateKeyPair", op: kmip.OperationCreateKeyPair, mk: func(c *kmipclient.Client) (kmipclient.PayloadBuilder, func(context.Context) (kmip.OperationPayload, error)) {
		return c12x(c.CreateKeyPair().RSA(2048, kmip.CryptographicUsageSign, kmip.CryptographicUsageVerify).Executor)
	}},
	{name: "DeleteAttribute", op: kmip.OperationDeleteAttribute, mk: func(c *kmipclient.Client) (kmipclient.PayloadBuilder, func(context.Context) (kmip.OperationPayload, error)) {
		return c12x(c.DeleteAttribute("id", kmip.AttributeNameContactInformation).Executor)
	}},
	{name: "Destroy", op: kmip.OperationDestroy, mk: func(c *kmipclient.Client) (kmipclient.PayloadBuilder, func(context.Context) (kmip.OperationPayload, error)) {
		return c12x(c.Destroy("id"))
	}},
	{name: "Encrypt", op: kmip.OperationEncrypt, mk: func(c *kmipclient.Client) (kmipclient.PayloadBuilder, func(context.Context) (kmip.OperationPayload, error)) {
		return c12x(c.Encrypt("id").Data([]byte("data")).Executor)
	}},
	{name: "Decrypt", op: kmip.OperationDecrypt, mk: func(c *kmipclient.Client) (kmipclient.PayloadBuilder, func(context.Context) (kmip.OperationPayload, error)) {
		return c12x(c.Decrypt("id").Data([]byte("data")).Executor)
	}},
	{name: "Get", op: kmip.OperationGet, mk: func(c *kmipclient.Client) (kmipclient.PayloadBuilder, func(context.Context) (kmip.OperationPayload, error)) {
		return c12x(c.Get("id").Executor)
	}},
	{name: "GetAttributeList", op: kmip.OperationGetAttributeList, mk: func(c *kmipclient.Client) (kmipclient.PayloadBuilder, func(context.Context) (kmip.OperationPayload, error)) {
		return c12x(c.GetAttributeList("id"))
	}},
	{name: "GetAttributes", op: kmip.OperationGetAttributes, mk: func(c *kmipclient.Client) (kmipclient.PayloadBuilder, func(context.Context) (kmip.OperationPayload, error)) {
		return c12x(c.GetAttributes("id", kmip.AttributeNameState).Executor)
	}},
	{name: "GetUsageAllocation", op: kmip.OperationGetUsageAllocation, mk: func(c *kmipclient.Client) (kmipclient.PayloadBuilder, func(context.Context) (kmip.OperationPayload, error)) {
		return c12x(c.GetUsageAllocation("id", 3))
	}},
	{name: "Import", op: kmip.OperationImport, mk: func(c *kmipclient.Client) (kmipclient.PayloadBuilder, func(context.Context) (kmip.OperationPayload, error)) {
		return c12x(c.Import("id", &kmip.SecretData{}).Executor)
	}},
	{name: "Export", op: kmip.OperationExport, mk: func(c *kmipclient.Client) (kmipclient.PayloadBuilder, func(context.Context) (kmip.OperationPayload, error)) {
		return c12x(c.Export("id").Executor)
	}},
	{name: "Locate", op: kmip.OperationLocate, mk: func(c *kmipclient.Client) (kmipclient.PayloadBuilder, func(context.Context) (kmip.OperationPayload, error)) {
		return c12x(c.Locate().Executor)
	}},
	{name: "ModifyAttribute", op: kmip.OperationModifyAttribute, mk: func(c *kmipclient.Client) (kmipclient.PayloadBuilder, func(context.Context) (kmip.OperationPayload, error)) {
		return c12x(c.ModifyAttribute("id", kmip.AttributeNameContactInformation, "you").Executor)
	}},
	{name: "ObtainLease", op: kmip.OperationObtainLease, mk: func(c *kmipclient.Client) (kmipclient.PayloadBuilder, func(context.Context) (kmip.OperationPayload, error)) {
		return c12x(c.ObtainLease("id"))
	}},
	{name: "Query", op: kmip.OperationQuery, mk: func(c *kmipclient.Client) (kmipclient.PayloadBuilder, func(context.Context) (kmip.OperationPayload, error)) {
		return c12x(c.Query().Operations().Executor)
	}},
	{name: "Register", op: kmip.OperationRegister, mk: func(c *kmipclient.Client) (kmipclient.PayloadBuilder, func(context.Context) (kmip.OperationPayload, error)) {
		return c12x(c.Register().Secret(kmip.SecretDataTypePassword, []byte("pw")).Executor)
	}, bad: func(c *kmipclient.Client) (kmipclient.PayloadBuilder, func(context.Context) (kmip.OperationPayload, error)) {
		return c12x(c.Register().PemKey([]byte("not pem"), kmip.CryptographicUsageSign).Executor)
	}},
	{name: "Rekey", op: kmip.OperationReKey, mk: func(c *kmipclient.Client) (kmipclient.PayloadBuilder, func(context.Context) (kmip.OperationPayload, error)) {
		return c12x(c.Rekey("id").Executor)
	}},
	{name: "RekeyKeyPair", op: kmip.OperationReKeyKeyPair, mk: func(c *kmipclient.Client) (kmipclient.PayloadBuilder, func(context.Context) (kmip.OperationPayload, error)) {
		return c12x(c.RekeyKeyPair("id").Executor)
	}},
	{name: "Revoke", op: kmip.OperationRevoke, mk: func(c *kmipclient.Client) (kmipclient.PayloadBuilder, func(context.Context) (kmip.OperationPayload, error)) {
		return c12x(c.Revoke("id").Executor)
	}},
	{name: "Sign", op: kmip.OperationSign, mk: func(c *kmipclient.Client) (kmipclient.PayloadBuilder, func(context.Context) (kmip.OperationPayload, error)) {
		return c12x(c.Sign("id").Data([]byte("data")).Executor)
	}},
	{name: "SignatureVerify", op: kmip.OperationSignatureVerify, mk: func(c *kmipclient.Client) (kmipclient.PayloadBuilder, func(context.Context) (kmip.OperationPayload, error)) {
		return c12x(c.SignatureVerify("id").Data([]byte("data")).Signature([]byte("sig")).Executor)
	}},
}

const c12BadBuilder = 20 // index of Register (has a builder with an initialisation error)

// ------------------------------------------------------------------ payload types

var c12Registry = kmip.VerifOperationRegistry()

const c12UnregisteredOp = 0x77 // not in the operation registry -> UnknownPayload on decode

// sample response payloads that survive an encode/decode round trip (wire mode)
func c12Sample(op kmip.Operation) kmip.OperationPayload {
	t, ok := c12Registry[op]
	if !ok {
		return kmip.NewUnknownPayload(op, ttlv.Value{Tag: kmip.TagUniqueIdentifier, Value: "u"})
	}
	p := reflect.New(t[1])
	if f := p.Elem().FieldByName("UniqueIdentifier"); f.IsValid() && f.Kind() == reflect.String {
		f.SetString("uid")
	}
	if f := p.Elem().FieldByName("Attribute"); f.IsValid() && f.Type() == reflect.TypeOf(kmip.Attribute{}) {
		f.Set(reflect.ValueOf(kmip.Attribute{AttributeName: kmip.AttributeNameContactInformation, AttributeValue: "me"}))
	}
	if f, g := p.Elem().FieldByName("ObjectType"), p.Elem().FieldByName("Object"); f.IsValid() && g.IsValid() {
		secret := []byte("secret")
		f.Set(reflect.ValueOf(kmip.ObjectTypeSecretData))
		g.Set(reflect.ValueOf(&kmip.SecretData{SecretDataType: kmip.SecretDataTypePassword, KeyBlock: kmip.KeyBlock{
			KeyFormatType: kmip.KeyFormatTypeRaw,
			KeyValue:      &kmip.KeyValue{Plain: &kmip.PlainKeyValue{KeyMaterial: kmip.KeyMaterial{Bytes: &secret}}},
		}}))
	}
	return p.Interface().(kmip.OperationPayload)
}

func (pl c12Pl) build() kmip.OperationPayload {
	switch pl.Kind {
	case "resp":
		p := c12Sample(kmip.Operation(pl.Op))
		if d, ok := p.(*payloads.DiscoverVersionsResponsePayload); ok {
			for _, i := range pl.Vers {
				d.ProtocolVersion = append(d.ProtocolVersion, allVers[i])
			}
		}
		return p
	case "req":
		t, ok := c12Registry[kmip.Operation(pl.Op)]
		if !ok {
			return kmip.NewUnknownPayload(kmip.Operation(pl.Op))
		}
		return reflect.New(t[0]).Interface().(kmip.OperationPayload)
	case "unknown":
		return kmip.NewUnknownPayload(kmip.Operation(pl.Op), ttlv.Value{Tag: kmip.TagUniqueIdentifier, Value: "u"})
	}
	return nil
}

func (cs *c12Case) message() *kmip.ResponseMessage {
	m := &kmip.ResponseMessage{Header: kmip.ResponseHeader{ProtocolVersion: kmip.V1_4, TimeStamp: time.Unix(1, 0), BatchCount: cs.Count}}
	for _, it := range cs.Items {
		bi := kmip.ResponseBatchItem{
			Operation: kmip.Operation(it.Op), ResultStatus: kmip.ResultStatus(it.Status), ResultReason: kmip.ResultReason(it.Reason),
			ResultMessage: it.Msg, ResponsePayload: it.Pl.build(),
		}
		if strings.Contains(it.Msg, "[acv]") {
			// the item also carries an asynchronous correlation value and an item id: how a
			// failure is reported must not depend on them
			bi.AsynchronousCorrelationValue = []byte{0xA5, 1, 2, 3}
			bi.UniqueBatchItemID = []byte{7}
		}
		m.BatchItem = append(m.BatchItem, bi)
	}
	return m
}

// abstract view (Coq term) of the response message the client's Roundtrip returned
func c12Ptype(p kmip.OperationPayload) (string, uint32) {
	if u, ok := p.(*kmip.UnknownPayload); ok {
		return "TUnknown", uint32(u.Operation())
	}
	t := reflect.TypeOf(p)
	if t.Kind() == reflect.Ptr {
		t = t.Elem()
	}
	ops := make([]int, 0, len(c12Registry))
	for op := range c12Registry {
		ops = append(ops, int(op))
	}
	sort.Ints(ops)
	for _, op := range ops {
		ty := c12Registry[kmip.Operation(op)]
		if ty[1] == t {
			return fmt.Sprintf("(TResp %d)", op), 0
		}
		if ty[0] == t {
			return fmt.Sprintf("(TReq %d)", op), 0
		}
	}
	return "(TReq (-1))", 0
}

func c12CoqResp(m *kmip.ResponseMessage, err error) string {
	if err != nil || m == nil {
		return "TFail"
	}
	items := make([]string, len(m.BatchItem))
	for i, bi := range m.BatchItem {
		pl := "None"
		if bi.ResponsePayload != nil {
			ty, uop := c12Ptype(bi.ResponsePayload)
			vers := "[]"
			if d, ok := bi.ResponsePayload.(*payloads.DiscoverVersionsResponsePayload); ok && d != nil {
				vers = coqVers(d.ProtocolVersion)
			}
			pl = fmt.Sprintf("(P %s %d %s %d)", ty, uop, vers, i)
		}
		items[i] = fmt.Sprintf("I %d %d %d %s %s", uint32(bi.Operation), uint32(bi.ResultStatus), uint32(bi.ResultReason), h.Str(bi.ResultMessage), pl)
	}
	return fmt.Sprintf("(R %s %s)", h.Z(int64(m.Header.BatchCount)), h.List(items))
}

// ------------------------------------------------------------------ running one case on the real client

type c12Script struct {
	idMode int
	direct bool
	resp   *kmip.ResponseMessage
	err    error
	// what the client's Roundtrip handed back to BatchOpt / negotiateVersion
	seen     bool
	seenResp *kmip.ResponseMessage
	seenErr  error
}

func (s *c12Script) middleware(next kmipclient.Next, ctx context.Context, req *kmip.RequestMessage) (*kmip.ResponseMessage, error) {
	var r *kmip.ResponseMessage
	var err error
	if s.direct {
		r, err = s.resp, s.err
		if s.idMode > 0 && r != nil && req != nil {
			// the items echo unique batch item IDs of the request: in order, or reversed (a server is
			// free to do so; which payload sits at which position is decided by position all the same)
			cp := *r
			cp.BatchItem = append([]kmip.ResponseBatchItem{}, r.BatchItem...)
			n := len(req.BatchItem)
			for i := range cp.BatchItem {
				j := i
				if s.idMode == 2 {
					j = n - 1 - i
				}
				if j >= 0 && j < n {
					cp.BatchItem[i].UniqueBatchItemID = append([]byte{}, req.BatchItem[j].UniqueBatchItemID...)
				}
			}
			r = &cp
		}
	} else {
		r, err = next(ctx, req)
	}
	s.seen, s.seenResp, s.seenErr = true, r, err
	return r, err
}

// c12Serve is the scripted wire server: it answers every request frame with the scripted bytes
// (nil = close the connection without answering).
func c12Serve(conn net.Conn, answer []byte) {
	defer conn.Close()
	hdr := make([]byte, 8)
	for {
		if _, err := io.ReadFull(conn, hdr); err != nil {
			return
		}
		n := binary.BigEndian.Uint32(hdr[4:])
		if _, err := io.CopyN(io.Discard, conn, int64(n)); err != nil {
			return
		}
		if answer == nil {
			return
		}
		if _, err := conn.Write(answer); err != nil {
			return
		}
	}
}

type c12Out struct {
	panicked string
	err      error
	payload  kmip.OperationPayload    // request / exec
	items    []kmip.ResponseBatchItem // batch
	unwrapPl []kmip.OperationPayload
	unwrapEr error
	adopted  kmip.ProtocolVersion
	skipped  string // case could not be set up (e.g. unencodable sample)
}

func c12Run(cs *c12Case) (out c12Out, sc *c12Script) {
	sc = &c12Script{direct: cs.Mode == "direct", idMode: cs.IDMode}
	var answer []byte
	switch cs.Transport {
	case "msg":
		if sc.direct {
			sc.resp = cs.message()
		} else {
			func() {
				defer func() {
					if r := recover(); r != nil {
						out.skipped = "unencodable"
					}
				}()
				answer = ttlv.MarshalTTLV(cs.message())
			}()
			if out.skipped != "" {
				return out, sc
			}
		}
	case "fail":
		sc.err = errors.New("scripted transport failure")
	case "garbage":
		answer = []byte{0x42, 0x00, 0x7B, 0x01, 0x00, 0x00, 0x00, 0x08, 0x42, 0x00, 0x0D, 0x02, 0x00, 0x00, 0x00, 0x04}
	}
	dial := func(ctx context.Context) (net.Conn, error) {
		a, b := net.Pipe()
		go c12Serve(b, answer)
		return a, nil
	}
	ctx, cancel := context.WithTimeout(context.Background(), 20*time.Second)
	defer cancel()
	defer func() {
		if r := recover(); r != nil {
			out.panicked = fmt.Sprint(r)
		}
	}()
	opts := []kmipclient.Option{kmipclient.WithDialerUnsafe(dial), kmipclient.WithMiddlewares(sc.middleware)}
	if cs.API == "dial" {
		var cl []kmip.ProtocolVersion
		for _, i := range cs.Client {
			cl = append(cl, allVers[i])
		}
		opts = append(opts, kmipclient.WithKmipVersions(cl...))
		if cs.Enforced > 0 {
			opts = append(opts, kmipclient.EnforceVersion(allVers[cs.Enforced-1]))
		}
		c, err := kmipclient.DialContext(ctx, "mem", opts...)
		if err != nil {
			out.err = err
			return out, sc
		}
		out.adopted = c.Version()
		_ = c.Close()
		return out, sc
	}
	opts = append(opts, kmipclient.EnforceVersion(kmip.V1_4))
	c, err := kmipclient.DialContext(ctx, "mem", opts...)
	if err != nil {
		out.skipped = "dial: " + err.Error()
		return out, sc
	}
	defer c.Close()
	switch cs.API {
	case "request":
		pb, _ := c12Builders[cs.Builder].mk(c)
		req, _ := pb.Build()
		out.payload, out.err = c.Request(ctx, req)
	case "exec":
		b := c12Builders[cs.Builder]
		mk := b.mk
		if cs.BuildErr {
			mk = b.bad
		}
		_, run := mk(c)
		out.payload, out.err = run(ctx)
	case "batch":
		var res kmipclient.BatchResult
		n := len(cs.Ops)
		// the batch error continuation option asked for (none / Continue / Stop / Undo, a function of the case): what
		// the client accepts as a response does not depend on it - a response shorter than the request is a protocol
		// violation under every option
		var opts []kmipclient.BatchOption
		if k := (int(cs.Count) + 3*n) % 4; k > 0 {
			opts = append(opts, kmipclient.OnBatchErr(kmip.BatchErrorContinuationOption(k)))
		}
		if n < 2 || (!cs.BuildErr && (n+cs.Ops[0])%2 == 0) {
			// Client.Batch with the built payloads
			var pls []kmip.OperationPayload
			for _, bi := range cs.Ops {
				pb, _ := c12Builders[bi].mk(c)
				p, _ := pb.Build()
				pls = append(pls, p)
			}
			res, out.err = c.BatchOpt(ctx, pls, opts...)
		} else {
			// fluent chain: first.Then(second)...Then(last).ExecContext
			then := func(i int, bad bool) func(*kmipclient.Client) kmipclient.PayloadBuilder {
				return func(cl *kmipclient.Client) kmipclient.PayloadBuilder {
					b := c12Builders[i]
					if bad {
						pb, _ := b.bad(cl)
						return pb
					}
					pb, _ := b.mk(cl)
					return pb
				}
			}
			first, _ := c12Builders[cs.Ops[0]].mk(c)
			be := first.(c12Thenner).Then(then(cs.Ops[1], cs.BuildErr && n == 2))
			for k := 2; k < n; k++ {
				be = be.Then(then(cs.Ops[k], cs.BuildErr && k == n-1))
			}
			res, out.err = be.ExecContext(ctx, opts...)
		}
		if out.err == nil {
			out.items = res
			out.unwrapPl, out.unwrapEr = res.Unwrap()
		}
	}
	return out, sc
}

type c12Thenner interface {
	Then(func(*kmipclient.Client) kmipclient.PayloadBuilder) kmipclient.BatchExec
}

func c12JSON(v any) string {
	b, _ := json.Marshal(v)
	return string(b)
}

func c12Remarshal(in any, out any) error {
	b, err := json.Marshal(in)
	if err != nil {
		return err
	}
	return json.Unmarshal(b, out)
}

// ------------------------------------------------------------------ oracle helpers

func c12EnumText(tag int, v uint32) []string {
	alts := []string{fmt.Sprintf("0x%08X", v), fmt.Sprintf("0x%08x", v)}
	if n := ttlv.EnumName(tag, v); n != "" {
		alts = append(alts, n)
	}
	if v >= 16 {
		alts = append(alts, fmt.Sprintf("0x%X", v), fmt.Sprintf("0x%x", v))
	}
	if v >= 100 {
		alts = append(alts, fmt.Sprint(v))
	}
	return alts
}

func c12ContainsAny(text string, alts []string) bool {
	for _, a := range alts {
		if strings.Contains(text, a) {
			return true
		}
	}
	return false
}

// c12Carries: does the error report this failed item's status, reason and message?
// (status / reason by registered name, or by number when the value has no name; an absent
// reason (0) and an empty message need no mention.)
func c12Carries(err error, bi *kmip.ResponseBatchItem) bool {
	if err == nil {
		return false
	}
	text := err.Error()
	if !c12ContainsAny(text, c12EnumText(kmip.TagResultStatus, uint32(bi.ResultStatus))) {
		return false
	}
	if bi.ResultReason != 0 && !c12ContainsAny(text, c12EnumText(kmip.TagResultReason, uint32(bi.ResultReason))) {
		return false
	}
	return strings.Contains(text, bi.ResultMessage)
}

func c12Failed(m *kmip.ResponseMessage) []*kmip.ResponseBatchItem {
	var l []*kmip.ResponseBatchItem
	if m == nil {
		return nil
	}
	for i := range m.BatchItem {
		if m.BatchItem[i].ResultStatus != kmip.ResultStatusSuccess {
			l = append(l, &m.BatchItem[i])
		}
	}
	return l
}

func c12CarriedList(err error, m *kmip.ResponseMessage) string {
	var l []string
	for _, bi := range c12Failed(m) {
		l = append(l, h.Bool(c12Carries(err, bi)))
	}
	return h.List(l)
}

func c12IsNil(p kmip.OperationPayload) bool {
	if p == nil {
		return true
	}
	v := reflect.ValueOf(p)
	return v.Kind() == reflect.Ptr && v.IsNil()
}

// index of the response item whose payload is this very object (-1 nil, -2 not from the response)
func c12PayloadID(p kmip.OperationPayload, m *kmip.ResponseMessage) int64 {
	if c12IsNil(p) {
		return -1
	}
	if m != nil {
		for i := range m.BatchItem {
			if q := m.BatchItem[i].ResponsePayload; q != nil && reflect.ValueOf(q).Kind() == reflect.Ptr && reflect.ValueOf(q).Pointer() == reflect.ValueOf(p).Pointer() && reflect.TypeOf(q) == reflect.TypeOf(p) {
				return int64(i)
			}
		}
	}
	return -2
}

// shape of a response, used in failure signatures
func c12Shape(cs *c12Case, ops []kmip.Operation, m *kmip.ResponseMessage, err error) string {
	if err != nil || m == nil {
		return "transport-error"
	}
	want := len(ops)
	if cs.API == "dial" {
		want = 1
	}
	if int(m.Header.BatchCount) != len(m.BatchItem) || len(m.BatchItem) != want {
		if len(c12Failed(m)) > 0 {
			return "count-mismatch-with-failed-item"
		}
		return "count-mismatch"
	}
	if fl := c12Failed(m); len(fl) > 0 {
		for _, bi := range fl {
			if ttlv.EnumName(kmip.TagResultStatus, uint32(bi.ResultStatus)) == "" || (bi.ResultReason != 0 && ttlv.EnumName(kmip.TagResultReason, uint32(bi.ResultReason)) == "") {
				return "failed-item-unknown-enum"
			}
		}
		return "failed-item"
	}
	for i := range m.BatchItem {
		p := m.BatchItem[i].ResponsePayload
		if p == nil {
			return "missing-payload"
		}
		wantOp := kmip.OperationDiscoverVersions
		if cs.API != "dial" {
			wantOp = ops[i]
		}
		if p.Operation() != wantOp {
			return "foreign-payload"
		}
		if t, ok := c12Registry[wantOp]; ok && reflect.TypeOf(p) != reflect.PointerTo(t[1]) {
			return "foreign-payload-type"
		}
	}
	return "conformant"
}

// ------------------------------------------------------------------ generation

var c12Statuses = [][3]any{ // status, reason, message
	{uint32(0), uint32(0), ""},
	{uint32(0), uint32(5), "ok-with-reason"},
	{uint32(1), uint32(1), "not found"},
	{uint32(1), uint32(5), ""},
	{uint32(1), uint32(0x100), "general: storage 100% full, 5%d left"}, // the message is data, never a format
	{uint32(2), uint32(0), "pending"},
	{uint32(3), uint32(9), "undone"},
	{uint32(9), uint32(0x99), "unknown enums"},
	{uint32(1), uint32(0x7777), "unknown reason 100%"},
	{uint32(2), uint32(0), "pending [acv]"},
	{uint32(2), uint32(5), "pending, not supported"},
	{uint32(3), uint32(5), "undone, not supported [acv]"},
	{uint32(9), uint32(5), "unknown status, not supported"},
}

func c12Other(op kmip.Operation) kmip.Operation {
	if op == kmip.OperationGet {
		return kmip.OperationActivate
	}
	return kmip.OperationGet
}

// alphabet of payloads relative to the requested operation
func c12Payloads(own kmip.Operation, direct bool) []c12Pl {
	l := []c12Pl{
		{Kind: "nil"},
		{Kind: "resp", Op: uint32(own)},
		{Kind: "resp", Op: uint32(c12Other(own))},
		{Kind: "unknown", Op: c12UnregisteredOp},
	}
	if direct {
		l = append(l,
			c12Pl{Kind: "req", Op: uint32(own)},
			c12Pl{Kind: "req", Op: uint32(c12Other(own))},
			c12Pl{Kind: "unknown", Op: uint32(own)},
			c12Pl{Kind: "resp", Op: uint32(kmip.OperationDiscoverVersions), Vers: []int{4, 0}},
		)
	}
	return l
}

func c12ItemOps(own kmip.Operation) []uint32 {
	return []uint32{uint32(own), uint32(c12Other(own)), c12UnregisteredOp, 0}
}

func c12AllItems(own kmip.Operation, direct bool) []c12Item {
	var l []c12Item
	for _, op := range c12ItemOps(own) {
		for _, st := range c12Statuses {
			for _, pl := range c12Payloads(own, direct) {
				l = append(l, c12Item{Op: op, Status: st[0].(uint32), Reason: st[1].(uint32), Msg: st[2].(string), Pl: pl})
			}
		}
	}
	return l
}

func c12RandItem(r *h.Rand, own kmip.Operation, direct bool) c12Item {
	ops := c12ItemOps(own)
	pls := c12Payloads(own, direct)
	st := c12Statuses[r.Intn(len(c12Statuses))]
	if r.Chance(1, 2) {
		st = c12Statuses[0]
	}
	it := c12Item{Op: ops[r.Intn(len(ops))], Status: st[0].(uint32), Reason: st[1].(uint32), Msg: st[2].(string), Pl: pls[r.Intn(len(pls))]}
	if r.Chance(1, 2) { // bias towards the conformant item
		it.Op = uint32(own)
		if it.Status == 0 {
			it.Pl = c12Pl{Kind: "resp", Op: uint32(own)}
		}
	}
	if it.Msg != "" && r.Chance(1, 3) {
		it.Msg = fmt.Sprintf("%s #%d", it.Msg, r.Intn(1000))
	}
	return it
}

func c12Gen(c *h.Ctx) []c12Case {
	var cases []c12Case
	add := func(cs c12Case) { cases = append(cases, cs) }
	nb := len(c12Builders)
	// (1) every fluent builder x every single-item response, header count 1 (direct)
	for b := 0; b < nb; b++ {
		for _, it := range c12AllItems(c12Builders[b].op, true) {
			add(c12Case{Mode: "direct", API: "exec", Builder: b, Transport: "msg", Count: 1, Items: []c12Item{it}})
		}
	}
	// (2) Request and Batch(1) on three builders x every single-item response x header count 0,1,2 (direct)
	for _, b := range []int{0, 10, 19} {
		for _, it := range c12AllItems(c12Builders[b].op, true) {
			for cnt := int32(0); cnt <= 2; cnt++ {
				add(c12Case{Mode: "direct", API: "request", Builder: b, Transport: "msg", Count: cnt, Items: []c12Item{it}})
				if cnt != 1 || it.Op == uint32(c12Builders[b].op) {
					add(c12Case{Mode: "direct", API: "batch", Ops: []int{b}, Transport: "msg", Count: cnt, Items: []c12Item{it}})
				}
			}
		}
	}
	// (3) transport failure, build error, empty item list, for every builder
	for b := 0; b < nb; b++ {
		add(c12Case{Mode: "direct", API: "exec", Builder: b, Transport: "fail"})
		add(c12Case{Mode: "direct", API: "request", Builder: b, Transport: "fail"})
		for cnt := int32(0); cnt <= 1; cnt++ {
			add(c12Case{Mode: "direct", API: "exec", Builder: b, Transport: "msg", Count: cnt})
			add(c12Case{Mode: "direct", API: "request", Builder: b, Transport: "msg", Count: cnt})
		}
	}
	conf := c12Item{Op: uint32(kmip.OperationRegister), Pl: c12Pl{Kind: "resp", Op: uint32(kmip.OperationRegister)}}
	add(c12Case{Mode: "direct", API: "exec", Builder: c12BadBuilder, BuildErr: true, Transport: "msg", Count: 1, Items: []c12Item{conf}})
	add(c12Case{Mode: "direct", API: "exec", Builder: c12BadBuilder, BuildErr: true, Transport: "msg", Count: 1, Items: []c12Item{{Op: 3, Status: 1, Reason: 1, Msg: "x"}}})
	// (4) random multi-item responses for single calls and batches of 0..4 requests (direct)
	nrand := c.Pick(2500, 40000)
	for i := 0; i < nrand; i++ {
		r := c.Rng.Fork(uint64(1000000 + i))
		n := r.Intn(5)
		cs := c12Case{Mode: "direct", Transport: "msg"}
		switch r.Intn(4) {
		case 0:
			cs.API, cs.Builder, n = "request", r.Intn(nb), 1
		case 1:
			cs.API, cs.Builder, n = "exec", r.Intn(nb), 1
		default:
			cs.API = "batch"
			for k := 0; k < n; k++ {
				cs.Ops = append(cs.Ops, r.Intn(nb))
			}
			if n >= 2 && r.Chance(1, 12) {
				cs.Ops[len(cs.Ops)-1] = c12BadBuilder
				cs.BuildErr = true
			}
		}
		ni := n
		if r.Chance(1, 4) {
			ni = r.Intn(6)
		}
		for k := 0; k < ni; k++ {
			own := kmip.OperationActivate
			if cs.API == "batch" {
				if k < len(cs.Ops) {
					own = c12Builders[cs.Ops[k]].op
				}
			} else {
				own = c12Builders[cs.Builder].op
			}
			cs.Items = append(cs.Items, c12RandItem(r, own, true))
		}
		cs.Count = int32(ni)
		if r.Chance(1, 5) {
			cs.Count = int32(r.Intn(7)) - 1
		}
		if r.Chance(1, 40) {
			cs.Transport = "fail"
		}
		add(cs)
	}
	// (4b) every two-item response over a reduced alphabet, for batches of two requests, header counts 1..3 (direct)
	{
		bs := []int{0, 10} // Activate, Get
		var alpha [2][]c12Item
		for k := 0; k < 2; k++ {
			own := c12Builders[bs[k]].op
			for _, op := range []uint32{uint32(own), uint32(c12Builders[bs[1-k]].op)} {
				for _, st := range []int{0, 2, 5} {
					for _, pl := range []c12Pl{{Kind: "nil"}, {Kind: "resp", Op: uint32(own)}, {Kind: "resp", Op: uint32(c12Builders[bs[1-k]].op)}} {
						q := c12Statuses[st]
						alpha[k] = append(alpha[k], c12Item{Op: op, Status: q[0].(uint32), Reason: q[1].(uint32), Msg: q[2].(string), Pl: pl})
					}
				}
			}
		}
		for _, a := range alpha[0] {
			for _, b := range alpha[1] {
				for cnt := int32(1); cnt <= 3; cnt++ {
					if cnt != 2 && (a.Status != 0) == (b.Status != 0) && a.Pl.Kind == "nil" {
						continue
					}
					add(c12Case{Mode: "direct", API: "batch", Ops: bs, Transport: "msg", Count: cnt, Items: []c12Item{a, b}})
					if cnt == 2 {
						add(c12Case{Mode: "direct", API: "batch", Ops: bs, Transport: "msg", Count: cnt, Items: []c12Item{a, b}, IDMode: 1})
						add(c12Case{Mode: "direct", API: "batch", Ops: bs, Transport: "msg", Count: cnt, Items: []c12Item{a, b}, IDMode: 2})
					}
				}
			}
		}
	}
	// (5) version discovery at connect time (direct): every single-item reply x client sets x counts
	clients := [][]int{{0, 1, 2, 3, 4}, {2, 4}, {1}, {0}}
	for ci, cl := range clients {
		for _, it := range c12AllItems(kmip.OperationDiscoverVersions, true) {
			for cnt := int32(0); cnt <= 2; cnt++ {
				if cnt != 1 && ci > 0 {
					continue
				}
				if it.Pl.Kind == "resp" && it.Pl.Op == uint32(kmip.OperationDiscoverVersions) {
					it.Pl.Vers = [][]int{{4, 2, 0}, {0, 1}, {}, {3}}[(ci+int(it.Status)+int(it.Op))%4]
				}
				add(c12Case{Mode: "direct", API: "dial", Transport: "msg", Count: cnt, Items: []c12Item{it}, Client: cl})
			}
		}
	}
	for i := 0; i < c.Pick(400, 5000); i++ {
		r := c.Rng.Fork(uint64(2000000 + i))
		cs := c12Case{Mode: "direct", API: "dial", Transport: "msg", Client: clients[r.Intn(len(clients))]}
		ni := 1
		if r.Chance(1, 3) {
			ni = r.Intn(4)
		}
		for k := 0; k < ni; k++ {
			it := c12RandItem(r, kmip.OperationDiscoverVersions, true)
			if it.Pl.Kind == "resp" && it.Pl.Op == uint32(kmip.OperationDiscoverVersions) {
				it.Pl.Vers = nil
				for v := 0; v < 5; v++ {
					if r.Chance(1, 2) {
						it.Pl.Vers = append(it.Pl.Vers, v)
					}
				}
				for a := len(it.Pl.Vers) - 1; a > 0; a-- {
					b := r.Intn(a + 1)
					it.Pl.Vers[a], it.Pl.Vers[b] = it.Pl.Vers[b], it.Pl.Vers[a]
				}
			}
			cs.Items = append(cs.Items, it)
		}
		cs.Count = int32(ni)
		if r.Chance(1, 5) {
			cs.Count = int32(r.Intn(4))
		}
		if r.Chance(1, 8) {
			cs.Enforced = 1 + r.Intn(5)
		}
		if r.Chance(1, 30) {
			cs.Transport = "fail"
		}
		add(cs)
	}
	// (6) over the wire: scripted server on a pipe, the real decoder builds what the client sees
	for b := 0; b < nb; b++ {
		own := c12Builders[b].op
		for _, it := range c12AllItems(own, false) {
			if (int(it.Status)+int(it.Op)+b)%3 != 0 && !(it.Op == uint32(own) && it.Status <= 1) {
				continue
			}
			api := []string{"exec", "request", "batch"}[(b+int(it.Status)+int(it.Reason))%3]
			cs := c12Case{Mode: "wire", API: api, Builder: b, Transport: "msg", Count: 1, Items: []c12Item{it}}
			if api == "batch" {
				cs.Ops = []int{b}
			}
			add(cs)
		}
		add(c12Case{Mode: "wire", API: "exec", Builder: b, Transport: "garbage"})
		add(c12Case{Mode: "wire", API: "exec", Builder: b, Transport: "fail"})
	}
	for i := 0; i < c.Pick(600, 8000); i++ {
		r := c.Rng.Fork(uint64(3000000 + i))
		cs := c12Case{Mode: "wire", Transport: "msg"}
		n := 1
		switch r.Intn(4) {
		case 0:
			cs.API, cs.Builder = "request", r.Intn(nb)
		case 1:
			cs.API, cs.Builder = "exec", r.Intn(nb)
		case 2:
			cs.API = "dial"
			cs.Client = clients[r.Intn(len(clients))]
		default:
			cs.API = "batch"
			n = r.Intn(4)
			for k := 0; k < n; k++ {
				cs.Ops = append(cs.Ops, r.Intn(nb))
			}
		}
		ni := n
		if r.Chance(1, 4) {
			ni = r.Intn(5)
		}
		for k := 0; k < ni; k++ {
			own := kmip.OperationDiscoverVersions
			switch cs.API {
			case "batch":
				own = kmip.OperationActivate
				if k < len(cs.Ops) {
					own = c12Builders[cs.Ops[k]].op
				}
			case "request", "exec":
				own = c12Builders[cs.Builder].op
			}
			it := c12RandItem(r, own, false)
			if it.Pl.Kind == "resp" && it.Pl.Op == uint32(kmip.OperationDiscoverVersions) {
				for v := 4; v >= 0; v-- {
					if r.Chance(1, 2) {
						it.Pl.Vers = append(it.Pl.Vers, v)
					}
				}
			}
			cs.Items = append(cs.Items, it)
		}
		cs.Count = int32(ni)
		if r.Chance(1, 6) {
			cs.Count = int32(r.Intn(6))
		}
		add(cs)
	}
	return cases
}

// ------------------------------------------------------------------ the driver

func driveC12(c *h.Ctx) error {
	c.Rule("scripted response messages handed to the real client (a) directly through a terminal middleware: every fluent builder (26) x every single-item " +
		"response over {item operation: own, other, unregistered, absent} x 9 (status, reason, message) classes incl. unknown enumeration values x 8 payload kinds " +
		"{none, own response type, other operation's response type, unregistered UnknownPayload, own request type, other request type, UnknownPayload(own op), " +
		"DiscoverVersions response}; Request/Batch with header counts 0,1,2; transport errors, builder errors, empty item lists; random responses of 0..5 items for " +
		"batches of 0..4 requests; every two-item response over a reduced alphabet for a batch of two; the version-discovery exchange of DialContext over 4 client sets; (b) over the wire through a scripted net.Pipe server and the " +
		"real TTLV decoder. APIs: Client.Request, Executor.ExecContext, Client.Batch / Executor.Then...ExecContext + BatchResult.Unwrap, DialContext. " +
		"A case is non-trivial when the response is not the single conformant success; distinct by canonical case JSON.")
	var cases []c12Case
	if c.Replay != nil {
		var cs c12Case
		if err := c12Remarshal(c.Replay["case"], &cs); err != nil {
			return err
		}
		cases = []c12Case{cs}
	} else {
		cases = c12Gen(c)
	}
	var rows []string
	for i := range cases {
		cs := &cases[i]
		c.Current(cs)
		out, sc := c12Run(cs)
		key := c12JSON(cs)
		if out.skipped != "" {
			c.Count("skipped:" + out.skipped)
			continue
		}
		// the requested operations
		var ops []kmip.Operation
		switch cs.API {
		case "request", "exec":
			ops = []kmip.Operation{c12Builders[cs.Builder].op}
		case "batch":
			for _, b := range cs.Ops {
				ops = append(ops, c12Builders[b].op)
			}
		}
		if !sc.seen && !(cs.API == "dial" && cs.Enforced > 0) && !cs.BuildErr && out.panicked == "" {
			return fmt.Errorf("case %d: the client never called Roundtrip: %s", i, key)
		}
		m, terr := sc.seenResp, sc.seenErr
		if !sc.seen {
			m, terr = nil, errors.New("not reached")
		}
		shape := c12Shape(cs, ops, m, terr)
		c.Eval(key, shape != "conformant" || len(cs.Items) != 1)
		c.Count("api:" + cs.API)
		c.Count("mode:" + cs.Mode)
		if cs.Mode == "wire" {
			c.Count("wire-shape:" + shape)
			if shape == "transport-error" && cs.Transport == "msg" && os.Getenv("C12_DEBUG") != "" {
				fmt.Fprintln(os.Stderr, "TE", terr, key)
			}
		}
		c.Count("shape:" + shape)
		if i%1499 == 0 {
			c.Sample(cs)
		}
		fail := func(problem, desc string) {
			c.Fail("C12/"+cs.API+"/"+problem+"/"+shape, desc+" ["+key+"]", cs)
		}
		failed := c12Failed(m)
		// ---------------- oracle: the property's statement on the implementation alone
		var obs string
		switch {
		case out.panicked != "":
			fail("panic", "client call panicked: "+out.panicked)
			c.Count("outcome:panic")
			obs = "OPanic"
		case out.err != nil:
			c.Count("outcome:error")
			obs = "(OErr " + c12CarriedList(out.err, m) + ")"
			if shape == "conformant" && !cs.BuildErr {
				if cs.API != "dial" {
					fail("conformant-rejected", "a conformant response was turned into an error: "+out.err.Error())
				}
			}
			for _, bi := range failed {
				if cs.BuildErr {
					break
				}
				if cs.API == "dial" && len(m.BatchItem) == 1 && m.Header.BatchCount == 1 && bi.ResultStatus == kmip.ResultStatusOperationFailed && bi.ResultReason == kmip.ResultReasonOperationNotSupported {
					continue // "discovery not supported" is a fallback, not a failure to report (C13)
				}
				if !c12Carries(out.err, bi) {
					fail("failure-details-lost", fmt.Sprintf("server failure (status=%d reason=%d message=%q) is not carried by the error %q", bi.ResultStatus, bi.ResultReason, bi.ResultMessage, out.err.Error()))
				}
			}
		default:
			c.Count("outcome:ok")
			switch cs.API {
			case "request", "exec":
				obs = fmt.Sprintf("(OPayload %s)", h.Z(c12PayloadID(out.payload, m)))
				if len(failed) > 0 {
					fail("failure-not-surfaced", "the response holds a failed item but the call succeeded")
				}
				if c12IsNil(out.payload) {
					fail("nil-payload-as-success", "the call returned no payload and no error")
				} else if out.payload.Operation() != ops[0] {
					fail("foreign-payload-as-success", fmt.Sprintf("the call for %s returned a %T (operation %s) as success", ttlv.EnumStr(ops[0]), out.payload, ttlv.EnumStr(out.payload.Operation())))
				} else if t, ok := c12Registry[ops[0]]; ok && (cs.API == "exec" || cs.Mode != "direct") && reflect.TypeOf(out.payload) != reflect.PointerTo(t[1]) {
					// the payload type belonging to the requested operation: the registered response type, through the
					// typed executors and through the generic entry points alike (for responses that went through the
					// decoder: a transport handing back response OBJECTS - mode "direct" - is not a server)
					fail("foreign-payload-as-success", fmt.Sprintf("the call (%s) for %s returned a %T, the payload type of that operation is %s", cs.API, ttlv.EnumStr(ops[0]), out.payload, t[1]))
				}
				if shape == "count-mismatch" {
					fail("violation-accepted", "batch/item count mismatch accepted")
				}
			case "batch":
				ids := make([]string, len(out.items))
				for k := range out.items {
					ids[k] = h.Z(c12PayloadID(out.items[k].ResponsePayload, m))
				}
				u := "None"
				if out.unwrapEr != nil {
					u = "(Some " + c12CarriedList(out.unwrapEr, m) + ")"
				}
				obs = fmt.Sprintf("(OBatch %s %s)", h.List(ids), u)
				if len(out.items) != len(ops) || shape == "count-mismatch" || shape == "count-mismatch-with-failed-item" {
					fail("violation-accepted", "batch/item count mismatch accepted")
				}
				for k := range out.items {
					bi := &out.items[k]
					if bi.ResultStatus != kmip.ResultStatusSuccess {
						if !c12Carries(out.unwrapEr, bi) {
							fail("failure-details-lost", fmt.Sprintf("Unwrap does not report the failed item %d (status=%d reason=%d message=%q): %v", k, bi.ResultStatus, bi.ResultReason, bi.ResultMessage, out.unwrapEr))
						}
						continue
					}
					if k < len(ops) {
						if bi.ResponsePayload == nil {
							fail("nil-payload-as-success", fmt.Sprintf("successful item %d has no payload", k))
						} else if bi.ResponsePayload.Operation() != ops[k] {
							fail("foreign-payload-as-success", fmt.Sprintf("item %d for %s carries a %T as success", k, ttlv.EnumStr(ops[k]), bi.ResponsePayload))
						} else if t, ok := c12Registry[ops[k]]; ok && cs.Mode != "direct" && reflect.TypeOf(bi.ResponsePayload) != reflect.PointerTo(t[1]) {
							fail("foreign-payload-as-success", fmt.Sprintf("item %d for %s carries a %T as success, the payload type of that operation is %s", k, ttlv.EnumStr(ops[k]), bi.ResponsePayload, t[1]))
						}
					}
				}
				if len(failed) == 0 && out.unwrapEr != nil {
					fail("conformant-rejected", "Unwrap reports an error although no item failed")
				}
				if len(out.unwrapPl) != len(out.items) {
					fail("unwrap-shape", "Unwrap returned a payload list of another length")
				} else {
					for k := range out.items {
						if out.unwrapPl[k] != out.items[k].ResponsePayload {
							fail("unwrap-shape", "Unwrap returned another payload than the item's")
						}
					}
				}
			case "dial":
				obs = "(OAdopt " + coqVer(out.adopted) + ")"
				if cs.Enforced == 0 {
					okShape := shape == "conformant"
					if m != nil && len(m.BatchItem) == 1 && m.Header.BatchCount == 1 {
						bi := &m.BatchItem[0]
						if bi.ResultStatus == kmip.ResultStatusOperationFailed && bi.ResultReason == kmip.ResultReasonOperationNotSupported {
							okShape = true
						}
					}
					if !okShape {
						fail("violation-accepted", "DialContext adopted "+out.adopted.String()+" from a protocol-violating discovery reply")
					}
				}
			}
		}
		// ---------------- row for the model
		var call string
		switch cs.API {
		case "request":
			call = fmt.Sprintf("CRequest %d", uint32(ops[0]))
		case "exec":
			call = fmt.Sprintf("CExec %s %d (TResp %d)", h.Bool(!cs.BuildErr), uint32(ops[0]), uint32(ops[0]))
		case "batch":
			l := make([]int64, len(ops))
			for k, o := range ops {
				l[k] = int64(o)
			}
			call = fmt.Sprintf("CBatch %s %s", h.Bool(!cs.BuildErr), h.ZList(l))
		case "dial":
			var cl []kmip.ProtocolVersion
			for _, k := range cs.Client {
				cl = append(cl, allVers[k])
			}
			enf := "None"
			if cs.Enforced > 0 {
				enf = "(Some " + coqVer(allVers[cs.Enforced-1]) + ")"
			}
			call = fmt.Sprintf("CDial %s %s", enf, coqVers(cl))
		}
		rows = append(rows, fmt.Sprintf("(%s, %s, %s)", call, c12CoqResp(m, terr), obs))
		c.IndexCase("mism_c12", len(rows)-1, cs)
	}
	var sb strings.Builder
	sb.WriteString("From Coq Require Import ZArith List Bool.\nFrom KV Require Import Negotiate ClientResp Cases.\nImport ListNotations.\nOpen Scope Z_scope.\n")
	sb.WriteString("Definition P t u v id : payload := Some {| p_type := t; p_uop := u; p_versions := v; p_id := id |}.\n")
	sb.WriteString("Definition I o s r m p : item := {| i_op := o; i_status := s; i_reason := r; i_msg := m; i_payload := p |}.\n")
	sb.WriteString("Definition R c l : transport := TMsg {| r_count := c; r_items := l |}.\n")
	defs, expr := h.Chunk("rows", "call * transport * obs", rows, 300)
	sb.WriteString(defs)
	fmt.Fprintf(&sb, "Definition mism_c12 := Eval vm_compute in bad_idx row_ok %s 0.\nPrint mism_c12.\n", expr)
	return c.WriteCases("cases_C12.v", sb.String(), len(rows))
}
