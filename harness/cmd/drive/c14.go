package main

// C14 — key material survives registration, transport and extraction.
// Part 1 of the driver: mirror types of the Gallina model (JSON-serialisable so that a
// case replays without the PRNG), conversions from/to the library's types, Coq printers.

import (
	"bytes"
	"context"
	"crypto"
	"crypto/ecdsa"
	"crypto/ed25519"
	"crypto/elliptic"
	"crypto/rsa"
	"crypto/x509"
	"crypto/x509/pkix"
	"encoding/json"
	"encoding/pem"
	"fmt"
	"math/big"
	"net"
	"strings"
	"sync"
	"time"

	"github.com/ovh/kmip-go"
	"github.com/ovh/kmip-go/kmipclient"
	"github.com/ovh/kmip-go/payloads"
	"github.com/ovh/kmip-go/ttlv"

	"verifharness/internal/h"
)

func init() { h.Register("C14", driveC14) }

// ---------------------------------------------------------------- big integers in JSON

type c14Int struct{ V *big.Int }

func c14I(v *big.Int) *c14Int {
	if v == nil {
		return nil
	}
	return &c14Int{new(big.Int).Set(v)}
}
func c14I64(v int64) *c14Int { return &c14Int{big.NewInt(v)} }

func (x c14Int) MarshalJSON() ([]byte, error) { return json.Marshal(x.V.Text(16)) }
func (x *c14Int) UnmarshalJSON(b []byte) error {
	var s string
	if err := json.Unmarshal(b, &s); err != nil {
		return err
	}
	v, ok := new(big.Int).SetString(s, 16)
	if !ok {
		return fmt.Errorf("bad integer %q", s)
	}
	x.V = v
	return nil
}
func (x *c14Int) big() *big.Int {
	if x == nil {
		return nil
	}
	return new(big.Int).Set(x.V)
}

// ---------------------------------------------------------------- pool of named Coq terms

// c14Pool turns long terms into file-level definitions shared by all rows.
type c14Pool struct {
	names map[string]string
	defs  []string
}

func newC14Pool() *c14Pool { return &c14Pool{names: map[string]string{}} }

func (p *c14Pool) ref(term string) string {
	if len(term) < 28 {
		return term
	}
	if n, ok := p.names[term]; ok {
		return n
	}
	n := fmt.Sprintf("g%d", len(p.defs))
	p.names[term] = n
	p.defs = append(p.defs, fmt.Sprintf("Definition %s := %s.\n", n, term))
	return n
}

func (p *c14Pool) z(v *big.Int) string {
	var s string
	if v.Sign() < 0 {
		s = fmt.Sprintf("(-0x%s)", new(big.Int).Neg(v).Text(16))
	} else {
		s = "0x" + v.Text(16)
	}
	return p.ref(s)
}
func (p *c14Pool) oz(v *c14Int) string {
	if v == nil {
		return "None"
	}
	return "(Some " + p.z(v.V) + ")"
}
func (p *c14Pool) bytes(b []byte) string {
	if len(b) == 0 {
		return "[]"
	}
	if len(b) <= 4 {
		return h.Bytes(b)
	}
	return p.ref(fmt.Sprintf("(hexb %d 0x%x)", len(b), b))
}
func (p *c14Pool) obytes(b *[]byte) string {
	if b == nil {
		return "None"
	}
	return "(Some " + p.bytes(*b) + ")"
}

// ---------------------------------------------------------------- mirror of KMIP objects

type c14TRsaPriv struct {
	Mod                      c14Int
	D, E, P, Q, Dp, Dq, Qinv *c14Int
}
type c14CurveD struct {
	Curve uint32
	D     c14Int
}
type c14CurveQ struct {
	Curve uint32
	Q     []byte
}
type c14RsaPubT struct{ N, E c14Int }
type c14Material struct {
	Bytes     *[]byte      `json:",omitempty"`
	Sym       *[]byte      `json:",omitempty"`
	RsaPriv   *c14TRsaPriv `json:",omitempty"`
	RsaPub    *c14RsaPubT  `json:",omitempty"`
	EcdsaPriv *c14CurveD   `json:",omitempty"`
	EcdsaPub  *c14CurveQ   `json:",omitempty"`
	EcPriv    *c14CurveD   `json:",omitempty"`
	EcPub     *c14CurveQ   `json:",omitempty"`
}
type c14Plain struct {
	Material c14Material
	Attrs    []int32 `json:",omitempty"`
}
type c14KeyValue struct {
	Wrapped *[]byte   `json:",omitempty"`
	Plain   *c14Plain `json:",omitempty"`
}
type c14KeyBlock struct {
	Format      uint32
	Compression uint32       `json:",omitempty"`
	Value       *c14KeyValue `json:",omitempty"`
	Alg         uint32       `json:",omitempty"`
	Len         int32        `json:",omitempty"`
	Wrapping    bool         `json:",omitempty"`
}
type c14Object struct {
	Kind  string       // SecretData Certificate SymmetricKey PublicKey PrivateKey SplitKey Opaque Template PGPKey
	Sub   uint32       `json:",omitempty"` // secret data type / certificate type
	Bytes []byte       `json:",omitempty"` // certificate value / opaque value
	KB    *c14KeyBlock `json:",omitempty"`
}
type c14Get struct {
	Type uint32
	Obj  *c14Object `json:",omitempty"`
}

var c14Slots = []string{"SBytes", "SSym", "SRsaPriv", "SRsaPub", "SEcdsaPriv", "SEcdsaPub", "SEcPriv", "SEcPub"}

func (m *c14Material) populated() []int {
	var l []int
	for i, b := range []bool{m.Bytes != nil, m.Sym != nil, m.RsaPriv != nil, m.RsaPub != nil, m.EcdsaPriv != nil, m.EcdsaPub != nil, m.EcPriv != nil, m.EcPub != nil} {
		if b {
			l = append(l, i)
		}
	}
	return l
}

func c14BigVal(v *big.Int) big.Int {
	var r big.Int
	r.Set(v)
	return r
}

func (m *c14Material) toKmip() kmip.KeyMaterial {
	var km kmip.KeyMaterial
	if m.Bytes != nil {
		b := append([]byte{}, (*m.Bytes)...)
		km.Bytes = &b
	}
	if m.Sym != nil {
		km.TransparentSymmetricKey = &kmip.TransparentSymmetricKey{Key: append([]byte{}, (*m.Sym)...)}
	}
	if t := m.RsaPriv; t != nil {
		km.TransparentRSAPrivateKey = &kmip.TransparentRSAPrivateKey{Modulus: c14BigVal(t.Mod.V), PrivateExponent: t.D.big(), PublicExponent: t.E.big(),
			P: t.P.big(), Q: t.Q.big(), PrimeExponentP: t.Dp.big(), PrimeExponentQ: t.Dq.big(), CRTCoefficient: t.Qinv.big()}
	}
	if t := m.RsaPub; t != nil {
		km.TransparentRSAPublicKey = &kmip.TransparentRSAPublicKey{Modulus: c14BigVal(t.N.V), PublicExponent: c14BigVal(t.E.V)}
	}
	if t := m.EcdsaPriv; t != nil {
		//nolint:staticcheck
		km.TransparentECDSAPrivateKey = &kmip.TransparentECDSAPrivateKey{RecommendedCurve: kmip.RecommendedCurve(t.Curve), D: c14BigVal(t.D.V)}
	}
	if t := m.EcdsaPub; t != nil {
		//nolint:staticcheck
		km.TransparentECDSAPublicKey = &kmip.TransparentECDSAPublicKey{RecommendedCurve: kmip.RecommendedCurve(t.Curve), QString: append([]byte{}, t.Q...)}
	}
	if t := m.EcPriv; t != nil {
		km.TransparentECPrivateKey = &kmip.TransparentECPrivateKey{RecommendedCurve: kmip.RecommendedCurve(t.Curve), D: c14BigVal(t.D.V)}
	}
	if t := m.EcPub; t != nil {
		km.TransparentECPublicKey = &kmip.TransparentECPublicKey{RecommendedCurve: kmip.RecommendedCurve(t.Curve), QString: append([]byte{}, t.Q...)}
	}
	return km
}

func c14MaterialFrom(km *kmip.KeyMaterial) c14Material {
	var m c14Material
	if km.Bytes != nil {
		b := append([]byte{}, (*km.Bytes)...)
		m.Bytes = &b
	}
	if t := km.TransparentSymmetricKey; t != nil {
		b := append([]byte{}, t.Key...)
		m.Sym = &b
	}
	if t := km.TransparentRSAPrivateKey; t != nil {
		m.RsaPriv = &c14TRsaPriv{Mod: *c14I(&t.Modulus), D: c14I(t.PrivateExponent), E: c14I(t.PublicExponent), P: c14I(t.P), Q: c14I(t.Q),
			Dp: c14I(t.PrimeExponentP), Dq: c14I(t.PrimeExponentQ), Qinv: c14I(t.CRTCoefficient)}
	}
	if t := km.TransparentRSAPublicKey; t != nil {
		m.RsaPub = &c14RsaPubT{N: *c14I(&t.Modulus), E: *c14I(&t.PublicExponent)}
	}
	if t := km.TransparentECDSAPrivateKey; t != nil {
		m.EcdsaPriv = &c14CurveD{Curve: uint32(t.RecommendedCurve), D: *c14I(&t.D)}
	}
	if t := km.TransparentECDSAPublicKey; t != nil {
		m.EcdsaPub = &c14CurveQ{Curve: uint32(t.RecommendedCurve), Q: append([]byte{}, t.QString...)}
	}
	if t := km.TransparentECPrivateKey; t != nil {
		m.EcPriv = &c14CurveD{Curve: uint32(t.RecommendedCurve), D: *c14I(&t.D)}
	}
	if t := km.TransparentECPublicKey; t != nil {
		m.EcPub = &c14CurveQ{Curve: uint32(t.RecommendedCurve), Q: append([]byte{}, t.QString...)}
	}
	return m
}

func c14Attr(id int32) kmip.Attribute {
	return kmip.Attribute{AttributeName: kmip.AttributeNameCryptographicLength, AttributeValue: id}
}
func c14AttrID(a kmip.Attribute) int32 {
	if v, ok := a.AttributeValue.(int32); ok && a.AttributeName == kmip.AttributeNameCryptographicLength {
		return v
	}
	return -1
}

func (kb *c14KeyBlock) toKmip() kmip.KeyBlock {
	r := kmip.KeyBlock{KeyFormatType: kmip.KeyFormatType(kb.Format), KeyCompressionType: kmip.KeyCompressionType(kb.Compression),
		CryptographicAlgorithm: kmip.CryptographicAlgorithm(kb.Alg), CryptographicLength: kb.Len}
	if kb.Value != nil {
		kv := &kmip.KeyValue{}
		if kb.Value.Wrapped != nil {
			b := append([]byte{}, (*kb.Value.Wrapped)...)
			kv.Wrapped = &b
		}
		if p := kb.Value.Plain; p != nil {
			pl := &kmip.PlainKeyValue{KeyMaterial: p.Material.toKmip()}
			for _, a := range p.Attrs {
				pl.Attribute = append(pl.Attribute, c14Attr(a))
			}
			kv.Plain = pl
		}
		r.KeyValue = kv
	}
	if kb.Wrapping {
		r.KeyWrappingData = &kmip.KeyWrappingData{WrappingMethod: kmip.WrappingMethodEncrypt}
	}
	return r
}

func c14KeyBlockFrom(kb *kmip.KeyBlock) *c14KeyBlock {
	r := &c14KeyBlock{Format: uint32(kb.KeyFormatType), Compression: uint32(kb.KeyCompressionType), Alg: uint32(kb.CryptographicAlgorithm),
		Len: kb.CryptographicLength, Wrapping: kb.KeyWrappingData != nil}
	if kv := kb.KeyValue; kv != nil {
		v := &c14KeyValue{}
		if kv.Wrapped != nil {
			b := append([]byte{}, (*kv.Wrapped)...)
			v.Wrapped = &b
		}
		if kv.Plain != nil {
			p := &c14Plain{Material: c14MaterialFrom(&kv.Plain.KeyMaterial)}
			for _, a := range kv.Plain.Attribute {
				p.Attrs = append(p.Attrs, c14AttrID(a))
			}
			v.Plain = p
		}
		r.Value = v
	}
	return r
}

func (o *c14Object) toKmip() kmip.Object {
	switch o.Kind {
	case "SecretData":
		return &kmip.SecretData{SecretDataType: kmip.SecretDataType(o.Sub), KeyBlock: o.KB.toKmip()}
	case "Certificate":
		return &kmip.Certificate{CertificateType: kmip.CertificateType(o.Sub), CertificateValue: append([]byte{}, o.Bytes...)}
	case "SymmetricKey":
		return &kmip.SymmetricKey{KeyBlock: o.KB.toKmip()}
	case "PublicKey":
		return &kmip.PublicKey{KeyBlock: o.KB.toKmip()}
	case "PrivateKey":
		return &kmip.PrivateKey{KeyBlock: o.KB.toKmip()}
	case "SplitKey":
		return &kmip.SplitKey{SplitKeyParts: 2, KeyPartIdentifier: 1, SplitKeyThreshold: 2, SplitKeyMethod: kmip.SplitKeyMethodXOR, KeyBlock: o.KB.toKmip()}
	case "Opaque":
		return &kmip.OpaqueObject{OpaqueDataType: 1, OpaqueDataValue: append([]byte{}, o.Bytes...)}
	case "Template":
		//nolint:staticcheck
		return &kmip.Template{Attribute: []kmip.Attribute{c14Attr(1)}}
	case "PGPKey":
		return &kmip.PGPKey{PGPKeyVersion: 4, KeyBlock: o.KB.toKmip()}
	}
	panic("c14: unknown object kind " + o.Kind)
}

func c14ObjectFrom(obj kmip.Object) (*c14Object, error) {
	switch v := obj.(type) {
	case *kmip.SecretData:
		return &c14Object{Kind: "SecretData", Sub: uint32(v.SecretDataType), KB: c14KeyBlockFrom(&v.KeyBlock)}, nil
	case *kmip.Certificate:
		return &c14Object{Kind: "Certificate", Sub: uint32(v.CertificateType), Bytes: v.CertificateValue}, nil
	case *kmip.SymmetricKey:
		return &c14Object{Kind: "SymmetricKey", KB: c14KeyBlockFrom(&v.KeyBlock)}, nil
	case *kmip.PublicKey:
		return &c14Object{Kind: "PublicKey", KB: c14KeyBlockFrom(&v.KeyBlock)}, nil
	case *kmip.PrivateKey:
		return &c14Object{Kind: "PrivateKey", KB: c14KeyBlockFrom(&v.KeyBlock)}, nil
	case *kmip.SplitKey:
		return &c14Object{Kind: "SplitKey", KB: c14KeyBlockFrom(&v.KeyBlock)}, nil
	case *kmip.OpaqueObject:
		return &c14Object{Kind: "Opaque", Bytes: v.OpaqueDataValue}, nil
	//nolint:staticcheck
	case *kmip.Template:
		return &c14Object{Kind: "Template"}, nil
	case *kmip.PGPKey:
		return &c14Object{Kind: "PGPKey", KB: c14KeyBlockFrom(&v.KeyBlock)}, nil
	}
	return nil, fmt.Errorf("object of type %T is outside the model", obj)
}

// ---------------------------------------------------------------- Coq printers for objects

func (p *c14Pool) curveD(t *c14CurveD) string {
	if t == nil {
		return "None"
	}
	return fmt.Sprintf("(Some (%d, %s))", t.Curve, p.z(t.D.V))
}
func (p *c14Pool) curveQ(t *c14CurveQ) string {
	if t == nil {
		return "None"
	}
	return fmt.Sprintf("(Some (%d, %s))", t.Curve, p.bytes(t.Q))
}
func (p *c14Pool) material(m *c14Material) string {
	if len(m.populated()) == 0 {
		return "km_empty"
	}
	rp := "None"
	if t := m.RsaPriv; t != nil {
		rp = p.ref(fmt.Sprintf("(Some (mk_t_rsa_priv %s %s %s %s %s %s %s %s))", p.z(t.Mod.V), p.oz(t.D), p.oz(t.E), p.oz(t.P), p.oz(t.Q), p.oz(t.Dp), p.oz(t.Dq), p.oz(t.Qinv)))
	}
	ru := "None"
	if t := m.RsaPub; t != nil {
		ru = fmt.Sprintf("(Some (%s, %s))", p.z(t.N.V), p.z(t.E.V))
	}
	return p.ref(fmt.Sprintf("(mk_km %s %s %s %s %s %s %s %s)", p.obytes(m.Bytes), p.obytes(m.Sym), rp, ru, p.curveD(m.EcdsaPriv), p.curveQ(m.EcdsaPub), p.curveD(m.EcPriv), p.curveQ(m.EcPub)))
}
func c14Attrs(a []int32) string {
	l := make([]int64, len(a))
	for i, v := range a {
		l[i] = int64(v)
	}
	return h.ZList(l)
}
func (p *c14Pool) keyBlock(kb *c14KeyBlock) string {
	kv := "None"
	if v := kb.Value; v != nil {
		pl := "None"
		if v.Plain != nil {
			pl = fmt.Sprintf("(Some (mk_pkv %s %s))", p.material(&v.Plain.Material), c14Attrs(v.Plain.Attrs))
		}
		kv = fmt.Sprintf("(Some (mk_kv %s %s))", p.obytes(v.Wrapped), pl)
	}
	return p.ref(fmt.Sprintf("(mk_kb %d %d %s %d %s %s)", kb.Format, kb.Compression, kv, kb.Alg, h.Z(int64(kb.Len)), h.Bool(kb.Wrapping)))
}
func (p *c14Pool) object(o *c14Object) string {
	switch o.Kind {
	case "SecretData":
		return fmt.Sprintf("(OSecretData %d %s)", o.Sub, p.keyBlock(o.KB))
	case "Certificate":
		return fmt.Sprintf("(OCertificate %d %s)", o.Sub, p.bytes(o.Bytes))
	case "SymmetricKey":
		return "(OSymmetricKey " + p.keyBlock(o.KB) + ")"
	case "PublicKey":
		return "(OPublicKey " + p.keyBlock(o.KB) + ")"
	case "PrivateKey":
		return "(OPrivateKey " + p.keyBlock(o.KB) + ")"
	case "SplitKey":
		return "(OSplitKey " + p.keyBlock(o.KB) + ")"
	case "Opaque":
		return "(OOpaque " + p.bytes(o.Bytes) + ")"
	case "Template":
		return "OTemplate"
	case "PGPKey":
		return "(OPGPKey " + p.keyBlock(o.KB) + ")"
	}
	panic("c14: unknown object kind " + o.Kind)
}
func (p *c14Pool) get(g *c14Get) string {
	if g.Obj == nil {
		return fmt.Sprintf("(mk_get %d None)", g.Type)
	}
	return fmt.Sprintf("(mk_get %d (Some %s))", g.Type, p.object(g.Obj))
}

// ---------------------------------------------------------------- Go keys <-> model keys

var c14CurveNames = map[string]elliptic.Curve{"P224": elliptic.P224(), "P256": elliptic.P256(), "P384": elliptic.P384(), "P521": elliptic.P521()}

// a curve value the library does not support: the generic implementation of the P-256
// parameters, which is not the value elliptic.P256() returns
var c14OtherCurve = func() elliptic.Curve {
	p := *elliptic.P256().Params()
	return &p
}()

func c14CurveName(c elliptic.Curve) string {
	for n, k := range c14CurveNames {
		if k == c {
			return n
		}
	}
	return "OtherCurve"
}
func c14Curve(name string) elliptic.Curve {
	if c, ok := c14CurveNames[name]; ok {
		return c
	}
	return c14OtherCurve
}
func c14CurveOfKmip(crv uint32) (string, bool) {
	switch kmip.RecommendedCurve(crv) {
	case kmip.RecommendedCurveP_224:
		return "P224", true
	case kmip.RecommendedCurveP_256:
		return "P256", true
	case kmip.RecommendedCurveP_384:
		return "P384", true
	case kmip.RecommendedCurveP_521:
		return "P521", true
	}
	return "", false
}

func (p *c14Pool) rsaPub(k *rsa.PublicKey) string {
	return p.ref(fmt.Sprintf("(mk_rsa_pub %s %s)", p.z(k.N), p.z(big.NewInt(int64(k.E)))))
}
func (p *c14Pool) ozb(v *big.Int) string {
	if v == nil {
		return "None"
	}
	return "(Some " + p.z(v) + ")"
}
func (p *c14Pool) rsaPriv(k *rsa.PrivateKey) string {
	pr := make([]string, len(k.Primes))
	for i, x := range k.Primes {
		pr[i] = p.ozb(x)
	}
	d := k.D
	if d == nil {
		d = big.NewInt(-999999) // never produced by the library; makes the row disagree
	}
	return p.ref(fmt.Sprintf("(mk_rsa_priv %s %s %s %s %s %s %s)", p.z(k.N), p.z(big.NewInt(int64(k.E))), p.z(d), h.List(pr),
		p.ozb(k.Precomputed.Dp), p.ozb(k.Precomputed.Dq), p.ozb(k.Precomputed.Qinv)))
}
func (p *c14Pool) ecPub(k *ecdsa.PublicKey) string {
	return p.ref(fmt.Sprintf("(mk_ec_pub %s %s %s)", c14CurveName(k.Curve), p.z(k.X), p.z(k.Y)))
}
func (p *c14Pool) ecPriv(k *ecdsa.PrivateKey) string {
	return p.ref(fmt.Sprintf("(mk_ec_priv %s %s %s %s)", c14CurveName(k.Curve), p.z(k.D), p.z(k.X), p.z(k.Y)))
}
func (p *c14Pool) pubKey(k crypto.PublicKey) string {
	switch v := k.(type) {
	case *rsa.PublicKey:
		return "(PubRsa " + p.rsaPub(v) + ")"
	case *ecdsa.PublicKey:
		return "(PubEc " + p.ecPub(v) + ")"
	}
	return "PubOther"
}
func (p *c14Pool) privKey(k crypto.PrivateKey) string {
	switch v := k.(type) {
	case *rsa.PrivateKey:
		return "(PrivRsa " + p.rsaPriv(v) + ")"
	case *ecdsa.PrivateKey:
		return "(PrivEc " + p.ecPriv(v) + ")"
	}
	return "PrivOther"
}

// c14Key is a registered input (JSON form).
type c14Key struct {
	Kind         string    // rsa-priv rsa-pub ec-priv ec-pub sym secret
	N, D         *c14Int   `json:",omitempty"`
	E            int       `json:",omitempty"`
	Primes       []*c14Int `json:",omitempty"`
	Dp, Dq, Qinv *c14Int   `json:",omitempty"`
	Curve        string    `json:",omitempty"`
	X, Y         *c14Int   `json:",omitempty"`
	Bytes        []byte    `json:",omitempty"`
	Alg          uint32    `json:",omitempty"`
	SecretKind   uint32    `json:",omitempty"`
	Valid        bool      // a key the property quantifies over (well-formed, supported curve)
}

func (k *c14Key) rsaPriv() *rsa.PrivateKey {
	r := &rsa.PrivateKey{PublicKey: rsa.PublicKey{N: k.N.big(), E: k.E}, D: k.D.big()}
	for _, p := range k.Primes {
		r.Primes = append(r.Primes, p.big())
	}
	r.Precomputed.Dp, r.Precomputed.Dq, r.Precomputed.Qinv = k.Dp.big(), k.Dq.big(), k.Qinv.big()
	return r
}
func (k *c14Key) rsaPub() *rsa.PublicKey { return &rsa.PublicKey{N: k.N.big(), E: k.E} }
func (k *c14Key) ecPub() *ecdsa.PublicKey {
	return &ecdsa.PublicKey{Curve: c14Curve(k.Curve), X: k.X.big(), Y: k.Y.big()}
}
func (k *c14Key) ecPriv() *ecdsa.PrivateKey {
	return &ecdsa.PrivateKey{PublicKey: *k.ecPub(), D: k.D.big()}
}

// input prints the model's reg_input term.
func (p *c14Pool) input(k *c14Key) string {
	switch k.Kind {
	case "rsa-priv":
		return "(RegRsaPriv " + p.rsaPriv(k.rsaPriv()) + ")"
	case "rsa-pub":
		return "(RegRsaPub " + p.rsaPub(k.rsaPub()) + ")"
	case "ec-priv":
		return "(RegEcPriv " + p.ecPriv(k.ecPriv()) + ")"
	case "ec-pub":
		return "(RegEcPub " + p.ecPub(k.ecPub()) + ")"
	case "sym":
		return fmt.Sprintf("(RegSym %d %s)", k.Alg, p.bytes(k.Bytes))
	case "secret":
		return fmt.Sprintf("(RegSecret %d %s)", k.SecretKind, p.bytes(k.Bytes))
	}
	panic("c14: unknown key kind " + k.Kind)
}

// ---------------------------------------------------------------- oracle tables for Go crypto

// c14Tables records what the real crypto functions answer on the inputs of one case; the
// model's crypto record is instantiated with these tables (KeyMat.crypto_of_tables).
type c14Tables struct {
	p    *c14Pool
	cols [17][]string
	seen map[string]bool
}

const (
	tMPkcs1Priv = iota
	tPPkcs1Priv
	tMPkcs1Pub
	tPPkcs1Pub
	tMPkcs8
	tPPkcs8
	tMPkix
	tPPkix
	tMSec1
	tPSec1
	tEcMarshal
	tEcUnmarshal
	tEcUnmarshalC
	tSbm
	tOrder
	tPrecompute
	tCert
)

func newC14Tables(p *c14Pool) *c14Tables { return &c14Tables{p: p, seen: map[string]bool{}} }

func (t *c14Tables) add(col int, k, v string) {
	key := fmt.Sprintf("%d|%s", col, k)
	if t.seen[key] {
		return
	}
	t.seen[key] = true
	t.cols[col] = append(t.cols[col], "("+k+", "+v+")")
}

func (t *c14Tables) term() string {
	empty := true
	parts := make([]string, len(t.cols))
	for i, c := range t.cols {
		if len(c) > 0 {
			empty = false
		}
		parts[i] = h.List(c)
	}
	if empty {
		return "T0"
	}
	return t.p.ref("(mk_tables " + strings.Join(parts, " ") + ")")
}

// c14Safe runs f and reports whether it panicked.
func c14Safe(f func()) (panicked bool, msg string) {
	defer func() {
		if r := recover(); r != nil {
			panicked, msg = true, fmt.Sprint(r)
		}
	}()
	f()
	return
}

func c14CopyRSA(k *rsa.PrivateKey) *rsa.PrivateKey {
	cp := func(x *big.Int) *big.Int {
		if x == nil {
			return nil
		}
		return new(big.Int).Set(x)
	}
	r := &rsa.PrivateKey{PublicKey: rsa.PublicKey{N: cp(k.N), E: k.E}, D: cp(k.D)}
	for _, p := range k.Primes {
		r.Primes = append(r.Primes, cp(p))
	}
	r.Precomputed.Dp, r.Precomputed.Dq, r.Precomputed.Qinv = cp(k.Precomputed.Dp), cp(k.Precomputed.Dq), cp(k.Precomputed.Qinv)
	return r
}

func c14CopyPriv(k crypto.PrivateKey) crypto.PrivateKey {
	if r, ok := k.(*rsa.PrivateKey); ok {
		return c14CopyRSA(r)
	}
	return k
}

func (t *c14Tables) privMarshal(k crypto.PrivateKey) {
	if k == nil {
		return
	}
	term := t.p.privKey(k)
	var der []byte
	var err error
	if pan, _ := c14Safe(func() { der, err = x509.MarshalPKCS8PrivateKey(c14CopyPriv(k)) }); pan {
		t.add(tMPkcs8, term, "Panic")
	} else if err == nil {
		t.add(tMPkcs8, term, "Ok "+t.p.bytes(der))
	}
}
func (t *c14Tables) pubMarshal(k crypto.PublicKey) {
	if k == nil {
		return
	}
	term := t.p.pubKey(k)
	var der []byte
	var err error
	if pan, _ := c14Safe(func() { der, err = x509.MarshalPKIXPublicKey(k) }); !pan && err == nil {
		t.add(tMPkix, term, t.p.bytes(der))
	}
}

// precompute records rsa.PrivateKey.Precompute on k (a key as the library would assemble it).
func (t *c14Tables) precompute(k *rsa.PrivateKey) *rsa.PrivateKey {
	pre := t.p.rsaPriv(k)
	post := c14CopyRSA(k)
	c14Safe(func() { post.Precompute() })
	if pt := t.p.rsaPriv(post); pt != pre {
		t.add(tPrecompute, pre, pt)
	}
	return post
}

// rsaPrivInput: everything a builder may ask about an RSA private key.
func (t *c14Tables) rsaPrivInput(k *rsa.PrivateKey) {
	term := t.p.rsaPriv(k)
	var der []byte
	if pan, _ := c14Safe(func() { der = x509.MarshalPKCS1PrivateKey(c14CopyRSA(k)) }); !pan {
		t.add(tMPkcs1Priv, term, t.p.bytes(der))
	}
	t.privMarshal(k)
	t.precompute(k)
}
func (t *c14Tables) rsaPubInput(k *rsa.PublicKey) {
	var der []byte
	if pan, _ := c14Safe(func() { der = x509.MarshalPKCS1PublicKey(k) }); !pan {
		t.add(tMPkcs1Pub, t.p.rsaPub(k), t.p.bytes(der))
	}
	t.pubMarshal(k)
}
func (t *c14Tables) ecPrivInput(k *ecdsa.PrivateKey) {
	var der []byte
	var err error
	if pan, _ := c14Safe(func() { der, err = x509.MarshalECPrivateKey(k) }); !pan && err == nil {
		t.add(tMSec1, t.p.ecPriv(k), t.p.bytes(der))
	}
	t.privMarshal(k)
}
func (t *c14Tables) ecPubInput(k *ecdsa.PublicKey) {
	t.pubMarshal(k)
	var q []byte
	//nolint:staticcheck
	if pan, _ := c14Safe(func() { q = elliptic.Marshal(k.Curve, k.X, k.Y) }); !pan {
		t.add(tEcMarshal, t.p.ecPub(k), t.p.bytes(q))
	}
}
func (t *c14Tables) keyInput(k *c14Key) {
	switch k.Kind {
	case "rsa-priv":
		t.rsaPrivInput(k.rsaPriv())
	case "rsa-pub":
		t.rsaPubInput(k.rsaPub())
	case "ec-priv":
		t.ecPrivInput(k.ecPriv())
	case "ec-pub":
		t.ecPubInput(k.ecPub())
	}
}

// parses: every parser of the library's accessors applied to a byte string, and the
// marshallers applied to what they return (PEM accessors).
func (t *c14Tables) parses(b []byte) {
	bt := t.p.bytes(b)
	if k, err := x509.ParsePKCS1PrivateKey(b); err == nil {
		t.add(tPPkcs1Priv, bt, t.p.rsaPriv(k))
		t.privMarshal(k)
	}
	if k, err := x509.ParsePKCS1PublicKey(b); err == nil {
		t.add(tPPkcs1Pub, bt, t.p.rsaPub(k))
		t.pubMarshal(k)
	}
	if k, err := x509.ParsePKCS8PrivateKey(b); err == nil {
		t.add(tPPkcs8, bt, t.p.privKey(k))
		t.privMarshal(k)
	}
	if k, err := x509.ParsePKIXPublicKey(b); err == nil {
		t.add(tPPkix, bt, t.p.pubKey(k))
		t.pubMarshal(k)
	}
	if k, err := x509.ParseECPrivateKey(b); err == nil {
		t.add(tPSec1, bt, t.p.ecPriv(k))
		t.privMarshal(k)
	}
}

func (t *c14Tables) ecPubSlot(s *c14CurveQ) {
	if s == nil {
		return
	}
	name, ok := c14CurveOfKmip(s.Curve)
	if !ok {
		return
	}
	c := c14Curve(name)
	key := fmt.Sprintf("(%s, %s)", name, t.p.bytes(s.Q))
	//nolint:staticcheck
	if x, y := elliptic.Unmarshal(c, s.Q); x != nil {
		t.add(tEcUnmarshal, key, fmt.Sprintf("(%s, %s)", t.p.z(x), t.p.z(y)))
		t.pubMarshal(&ecdsa.PublicKey{Curve: c, X: x, Y: y})
	}
	if x, y := elliptic.UnmarshalCompressed(c, s.Q); x != nil {
		t.add(tEcUnmarshalC, key, fmt.Sprintf("(%s, %s)", t.p.z(x), t.p.z(y)))
		t.pubMarshal(&ecdsa.PublicKey{Curve: c, X: x, Y: y})
	}
}
func (t *c14Tables) ecPrivSlot(s *c14CurveD) {
	if s == nil {
		return
	}
	name, ok := c14CurveOfKmip(s.Curve)
	if !ok {
		return
	}
	c := c14Curve(name)
	t.add(tOrder, name, t.p.z(c.Params().N))
	d := new(big.Int).Set(s.D.V)
	var x, y *big.Int
	if pan, _ := c14Safe(func() { x, y = c.ScalarBaseMult(d.Bytes()) }); pan || x == nil {
		return
	}
	t.add(tSbm, fmt.Sprintf("(%s, %s)", name, t.p.z(new(big.Int).Abs(d))), fmt.Sprintf("(%s, %s)", t.p.z(x), t.p.z(y)))
	t.privMarshal(&ecdsa.PrivateKey{PublicKey: ecdsa.PublicKey{Curve: c, X: x, Y: y}, D: d})
}

// material: the crypto questions the accessors can ask about a key material.
func (t *c14Tables) material(m *c14Material) {
	if m.Bytes != nil {
		t.parses(*m.Bytes)
	}
	if r := m.RsaPriv; r != nil && r.E != nil && r.D != nil && r.E.V.IsInt64() {
		k := &rsa.PrivateKey{PublicKey: rsa.PublicKey{N: r.Mod.big(), E: int(r.E.V.Int64())}, D: r.D.big(), Primes: []*big.Int{r.P.big(), r.Q.big()}}
		k.Precomputed.Dp, k.Precomputed.Dq, k.Precomputed.Qinv = r.Dp.big(), r.Dq.big(), r.Qinv.big()
		t.privMarshal(t.precompute(k))
	}
	if r := m.RsaPub; r != nil && r.E.V.IsInt64() {
		t.pubMarshal(&rsa.PublicKey{N: r.N.big(), E: int(r.E.V.Int64())})
	}
	t.ecPubSlot(m.EcdsaPub)
	t.ecPubSlot(m.EcPub)
	t.ecPrivSlot(m.EcdsaPriv)
	t.ecPrivSlot(m.EcPriv)
}
func (t *c14Tables) object(o *c14Object) {
	if o == nil {
		return
	}
	if o.Kind == "Certificate" {
		if c, err := x509.ParseCertificate(o.Bytes); err == nil {
			t.add(tCert, t.p.bytes(o.Bytes), t.p.bytes(c.Raw))
		}
	}
	if o.KB != nil && o.KB.Value != nil && o.KB.Value.Plain != nil {
		t.material(&o.KB.Value.Plain.Material)
	}
}

// ---------------------------------------------------------------- running the accessors

// c14Obs is one observed accessor outcome.
type c14Obs struct {
	Acc   string // Coq name of the accessor (k1.., o1.., p1..)
	Name  string // Go name
	Class int    // 0 ok, 1 error, 2 panic
	Term  string // Coq term of type res value
	Msg   string
	Val   any // the Go value (oracle use)
}

func (p *c14Pool) pemTerm(s string) string {
	blk, rest := pem.Decode([]byte(s))
	if blk == nil || len(bytes.TrimSpace(rest)) != 0 || len(blk.Headers) != 0 {
		return "(VBytes " + p.bytes([]byte("?"+s)) + ")"
	}
	b := append([]byte(blk.Type), 0)
	b = append(b, blk.Bytes...)
	return "(VBytes " + p.bytes(b) + ")"
}

// c14Call runs one accessor under recover; conv prints the Ok value.
func c14Call[T any](acc, name string, f func() (T, error), conv func(T) string) c14Obs {
	o := c14Obs{Acc: acc, Name: name}
	var v T
	var err error
	pan, msg := c14Safe(func() { v, err = f() })
	switch {
	case pan:
		o.Class, o.Term, o.Msg = 2, "Panic", msg
	case err != nil:
		o.Class, o.Term, o.Msg = 1, "Err", err.Error()
	default:
		var term string
		if pan2, msg2 := c14Safe(func() { term = conv(v) }); pan2 {
			o.Class, o.Term, o.Msg = 1, "OutOfFuel", "unprintable result: "+msg2
		} else {
			o.Term, o.Val = "(Ok "+term+")", v
		}
	}
	return o
}

func c14KeyBlockOf(obj kmip.Object) *kmip.KeyBlock {
	switch v := obj.(type) {
	case *kmip.SecretData:
		return &v.KeyBlock
	case *kmip.SymmetricKey:
		return &v.KeyBlock
	case *kmip.PublicKey:
		return &v.KeyBlock
	case *kmip.PrivateKey:
		return &v.KeyBlock
	case *kmip.SplitKey:
		return &v.KeyBlock
	case *kmip.PGPKey:
		return &v.KeyBlock
	}
	return nil
}

// c14RunAccessors applies every accessor that exists for the payload / its object / its key block.
func c14RunAccessors(p *c14Pool, pl *payloads.GetResponsePayload) []c14Obs {
	var out []c14Obs
	vb := func(b []byte) string { return "(VBytes " + p.bytes(b) + ")" }
	vs := func(s string) string { return "(VBytes " + p.bytes([]byte(s)) + ")" }
	vrpub := func(k *rsa.PublicKey) string { return "(VRsaPub " + p.rsaPub(k) + ")" }
	vrpriv := func(k *rsa.PrivateKey) string { return "(VRsaPriv " + p.rsaPriv(k) + ")" }
	vepub := func(k *ecdsa.PublicKey) string { return "(VEcPub " + p.ecPub(k) + ")" }
	vepriv := func(k *ecdsa.PrivateKey) string { return "(VEcPriv " + p.ecPriv(k) + ")" }
	vpub := func(k crypto.PublicKey) string { return "(VPub " + p.pubKey(k) + ")" }
	vpriv := func(k crypto.PrivateKey) string { return "(VPriv " + p.privKey(k) + ")" }
	vcert := func(c *x509.Certificate) string { return "(VBytes " + p.bytes(c.Raw) + ")" }
	if kb := c14KeyBlockOf(pl.Object); kb != nil {
		out = append(out, c14Call("k1", "KeyBlock.GetMaterial", kb.GetMaterial, func(m kmip.KeyMaterial) string {
			mm := c14MaterialFrom(&m)
			return "(VMaterial " + p.material(&mm) + ")"
		}))
		out = append(out, c14Call("k2", "KeyBlock.GetBytes", kb.GetBytes, vb))
		out = append(out, c14Call("k3", "KeyBlock.GetAttributes", func() ([]kmip.Attribute, error) { return kb.GetAttributes(), nil }, func(l []kmip.Attribute) string {
			ids := make([]int32, len(l))
			for i, a := range l {
				ids[i] = c14AttrID(a)
			}
			return "(VAttrs " + c14Attrs(ids) + ")"
		}))
	}
	switch o := pl.Object.(type) {
	case *kmip.SecretData:
		out = append(out, c14Call("o1", "SecretData.Data", o.Data, vb))
	case *kmip.SymmetricKey:
		out = append(out, c14Call("o2", "SymmetricKey.KeyMaterial", o.KeyMaterial, vb))
	case *kmip.Certificate:
		out = append(out, c14Call("o3", "Certificate.X509Certificate", o.X509Certificate, vcert))
		out = append(out, c14Call("o4", "Certificate.PemCertificate", o.PemCertificate, p.pemTerm))
	case *kmip.PublicKey:
		out = append(out, c14Call("o5", "PublicKey.RSA", o.RSA, vrpub))
		out = append(out, c14Call("o6", "PublicKey.ECDSA", o.ECDSA, vepub))
		out = append(out, c14Call("o7", "PublicKey.CryptoPublicKey", o.CryptoPublicKey, vpub))
		out = append(out, c14Call("o8", "PublicKey.PkixPem", o.PkixPem, p.pemTerm))
	case *kmip.PrivateKey:
		out = append(out, c14Call("o9", "PrivateKey.RSA", o.RSA, vrpriv))
		out = append(out, c14Call("o10", "PrivateKey.ECDSA", o.ECDSA, vepriv))
		out = append(out, c14Call("o11", "PrivateKey.CryptoPrivateKey", o.CryptoPrivateKey, vpriv))
		out = append(out, c14Call("o12", "PrivateKey.Pkcs8Pem", o.Pkcs8Pem, p.pemTerm))
	}
	out = append(out, c14Call("p1", "GetResponsePayload.SecretString", pl.SecretString, vs))
	out = append(out, c14Call("p2", "GetResponsePayload.Secret", pl.Secret, vb))
	out = append(out, c14Call("p3", "GetResponsePayload.SymmetricKey", pl.SymmetricKey, vb))
	out = append(out, c14Call("p4", "GetResponsePayload.X509Certificate", pl.X509Certificate, vcert))
	out = append(out, c14Call("p5", "GetResponsePayload.PemCertificate", pl.PemCertificate, p.pemTerm))
	out = append(out, c14Call("p6", "GetResponsePayload.RsaPrivateKey", pl.RsaPrivateKey, vrpriv))
	out = append(out, c14Call("p7", "GetResponsePayload.EcdsaPrivateKey", pl.EcdsaPrivateKey, vepriv))
	out = append(out, c14Call("p8", "GetResponsePayload.PrivateKey", pl.PrivateKey, vpriv))
	out = append(out, c14Call("p9", "GetResponsePayload.PemPrivateKey", pl.PemPrivateKey, p.pemTerm))
	out = append(out, c14Call("p10", "GetResponsePayload.RsaPublicKey", pl.RsaPublicKey, vrpub))
	out = append(out, c14Call("p11", "GetResponsePayload.EcdsaPublicKey", pl.EcdsaPublicKey, vepub))
	out = append(out, c14Call("p12", "GetResponsePayload.PublicKey", pl.PublicKey, vpub))
	out = append(out, c14Call("p13", "GetResponsePayload.PemPublicKey", pl.PemPublicKey, p.pemTerm))
	return out
}

func c14ObsList(obs []c14Obs) string {
	l := make([]string, len(obs))
	for i, o := range obs {
		l[i] = "(" + o.Acc + ", " + o.Term + ")"
	}
	return h.List(l)
}

// ---------------------------------------------------------------- the wire

var c14Versions = []kmip.ProtocolVersion{kmip.V1_0, kmip.V1_1, kmip.V1_2, kmip.V1_3, kmip.V1_4}

// c14Server is the scripted KMIP server behind the in-memory clients: Register stores the
// decoded object, Get sends the stored object back.
type c14Server struct {
	mu    sync.Mutex
	store map[string]kmip.Object
}

func (s *c14Server) serve(conn net.Conn) {
	st := ttlv.NewStream(conn, 1<<22)
	defer conn.Close()
	for {
		var req kmip.RequestMessage
		if err := st.Recv(&req); err != nil {
			return
		}
		resp := &kmip.ResponseMessage{Header: kmip.ResponseHeader{ProtocolVersion: req.Header.ProtocolVersion, TimeStamp: time.Unix(1, 0), BatchCount: int32(len(req.BatchItem))}}
		for _, bi := range req.BatchItem {
			item := kmip.ResponseBatchItem{Operation: bi.Operation, UniqueBatchItemID: bi.UniqueBatchItemID, ResultStatus: kmip.ResultStatusSuccess}
			s.mu.Lock()
			switch pl := bi.RequestPayload.(type) {
			case *payloads.RegisterRequestPayload:
				s.store["reg"] = pl.Object
				item.ResponsePayload = &payloads.RegisterResponsePayload{UniqueIdentifier: "reg"}
			case *payloads.GetRequestPayload:
				if obj, ok := s.store[pl.UniqueIdentifier]; ok && obj != nil {
					item.ResponsePayload = &payloads.GetResponsePayload{ObjectType: obj.ObjectType(), UniqueIdentifier: pl.UniqueIdentifier, Object: obj}
				} else {
					item.ResultStatus = kmip.ResultStatusOperationFailed
					item.ResultReason = kmip.ResultReasonItemNotFound
				}
			default:
				item.ResultStatus = kmip.ResultStatusOperationFailed
				item.ResultReason = kmip.ResultReasonOperationNotSupported
			}
			s.mu.Unlock()
			resp.BatchItem = append(resp.BatchItem, item)
		}
		if err := st.Send(resp); err != nil {
			return
		}
	}
}

type c14Env struct {
	srv     *c14Server
	clients map[[2]int]*kmipclient.Client
}

func newC14Env() *c14Env {
	e := &c14Env{srv: &c14Server{store: map[string]kmip.Object{}}, clients: map[[2]int]*kmipclient.Client{}}
	// an unrelated object fetched on the same connection AFTER the object under test and BEFORE its
	// accessors run: extracted key material must not depend on later exchanges of the connection
	scribble := bytes.Repeat([]byte{0xA5}, 6000)
	e.srv.store["scribble"] = &kmip.SymmetricKey{KeyBlock: kmip.KeyBlock{KeyFormatType: kmip.KeyFormatTypeRaw,
		KeyValue: &kmip.KeyValue{Plain: &kmip.PlainKeyValue{KeyMaterial: kmip.KeyMaterial{Bytes: &scribble}}}}}
	return e
}

// laterExchange performs one more request/response on the client's connection.
func c14LaterExchange(cl *kmipclient.Client) {
	ctx, cancel := context.WithTimeout(context.Background(), 20*time.Second)
	defer cancel()
	_, _ = c14Safe(func() { _, _ = cl.Get("scribble").ExecContext(ctx) })
}

func (e *c14Env) client(ver [2]int) (*kmipclient.Client, error) {
	if c, ok := e.clients[ver]; ok {
		return c, nil
	}
	dial := func(ctx context.Context) (net.Conn, error) {
		a, b := net.Pipe()
		go e.srv.serve(b)
		return a, nil
	}
	c, err := kmipclient.DialContext(context.Background(), "mem", kmipclient.WithDialerUnsafe(dial),
		kmipclient.EnforceVersion(kmip.ProtocolVersion{ProtocolVersionMajor: int32(ver[0]), ProtocolVersionMinor: int32(ver[1])}))
	if err != nil {
		return nil, err
	}
	e.clients[ver] = c
	// warm the connection up with a large response, so that whatever the connection keeps
	// between exchanges (buffers) has reached its steady state before the case under test
	c14LaterExchange(c)
	return c, nil
}

// drop discards the client of a version after a failed exchange: a response that does not
// decode terminates the client's connection for good (that is C11's subject, not C14's).
func (e *c14Env) drop(ver [2]int) {
	if c, ok := e.clients[ver]; ok {
		_ = c.Close()
		delete(e.clients, ver)
	}
}

func (e *c14Env) close() {
	for _, c := range e.clients {
		_ = c.Close()
	}
}

// transport sends a Get response carrying obj through the real codec: "ttlv" = the in-memory
// client/server pair (binary TTLV over a stream), "xml"/"json" = a whole response message
// marshalled and unmarshalled in that encoding. Returns the decoded payload.
func (e *c14Env) transport(wire string, ver [2]int, obj kmip.Object) (pl *payloads.GetResponsePayload, err error) {
	pan, msg := c14Safe(func() {
		switch wire {
		case "ttlv":
			var cl *kmipclient.Client
			if cl, err = e.client(ver); err != nil {
				return
			}
			e.srv.mu.Lock()
			e.srv.store["obj"] = obj
			e.srv.mu.Unlock()
			ctx, cancel := context.WithTimeout(context.Background(), 20*time.Second)
			defer cancel()
			pl, err = cl.Get("obj").ExecContext(ctx)
			if err == nil {
				c14LaterExchange(cl)
			}
		case "xml", "json", "ttlv-direct":
			msg := &kmip.ResponseMessage{Header: kmip.ResponseHeader{ProtocolVersion: kmip.ProtocolVersion{ProtocolVersionMajor: int32(ver[0]), ProtocolVersionMinor: int32(ver[1])},
				TimeStamp: time.Unix(1, 0), BatchCount: 1},
				BatchItem: []kmip.ResponseBatchItem{{Operation: kmip.OperationGet, ResultStatus: kmip.ResultStatusSuccess,
					ResponsePayload: &payloads.GetResponsePayload{ObjectType: obj.ObjectType(), UniqueIdentifier: "obj", Object: obj}}}}
			var back kmip.ResponseMessage
			if wire == "xml" {
				err = ttlv.UnmarshalXML(ttlv.MarshalXML(msg), &back)
			} else if wire == "ttlv-direct" {
				err = ttlv.UnmarshalTTLV(ttlv.MarshalTTLV(msg), &back)
			} else {
				err = ttlv.UnmarshalJSON(ttlv.MarshalJSON(msg), &back)
			}
			if err != nil {
				return
			}
			if len(back.BatchItem) != 1 {
				err = fmt.Errorf("decoded %d batch items", len(back.BatchItem))
				return
			}
			var ok bool
			if pl, ok = back.BatchItem[0].ResponsePayload.(*payloads.GetResponsePayload); !ok {
				err = fmt.Errorf("decoded payload is %T", back.BatchItem[0].ResponsePayload)
			}
		default:
			err = fmt.Errorf("unknown wire %q", wire)
		}
	})
	if pan {
		err = fmt.Errorf("PANIC in codec: %s", msg)
	}
	if err != nil && wire == "ttlv" {
		e.drop(ver)
	}
	if err != nil {
		return nil, err
	}
	return pl, nil
}

// ---------------------------------------------------------------- key generation (deterministic)

func c14RandBig(r *h.Rand, bits int) *big.Int {
	b := r.Bytes((bits + 7) / 8)
	v := new(big.Int).SetBytes(b)
	return v.Rsh(v, uint(len(b)*8-bits))
}

// c14Prime returns a prime of exactly `bits` bits (top two bits set so products keep their length).
func c14Prime(r *h.Rand, bits int) *big.Int {
	for {
		v := c14RandBig(r, bits)
		v.SetBit(v, bits-1, 1)
		v.SetBit(v, bits-2, 1)
		v.SetBit(v, 0, 1)
		if v.ProbablyPrime(20) {
			return v
		}
	}
}

// c14GenRSA builds a two-prime RSA key of about `bits` bits. style: 0 = modulus with the top bit
// of its first byte set (needs a 0x00 sign byte on the wire), 1 = modulus one or more bits short
// of a byte boundary, 2 = unbalanced primes. pre: keep the CRT values.
func c14GenRSA(r *h.Rand, bits, style int, pre bool) *c14Key {
	one := big.NewInt(1)
	for {
		pb, qb := bits/2, bits-bits/2
		switch style {
		case 1:
			qb -= 1 + r.Intn(6)
		case 2:
			pb, qb = bits/3, bits-bits/3
		}
		p, q := c14Prime(r, pb), c14Prime(r, qb)
		if p.Cmp(q) == 0 {
			continue
		}
		if style == 1 { // without the two top bits forced the product may lose a bit: fine
			q.SetBit(q, qb-2, uint(r.Intn(2)))
			if !q.ProbablyPrime(20) {
				continue
			}
		}
		n := new(big.Int).Mul(p, q)
		phi := new(big.Int).Mul(new(big.Int).Sub(p, one), new(big.Int).Sub(q, one))
		es := []int{3, 5, 17, 257, 65537, 2147483647}
		e := es[r.Intn(len(es))]
		d := new(big.Int).ModInverse(big.NewInt(int64(e)), phi)
		if d == nil {
			continue
		}
		k := &rsa.PrivateKey{PublicKey: rsa.PublicKey{N: n, E: e}, D: d, Primes: []*big.Int{p, q}}
		chk := c14CopyRSA(k)
		chk.Precompute()
		if chk.Validate() != nil {
			continue
		}
		key := &c14Key{Kind: "rsa-priv", N: c14I(n), E: e, D: c14I(d), Primes: []*c14Int{c14I(p), c14I(q)}, Valid: true}
		if pre {
			key.Dp, key.Dq, key.Qinv = c14I(chk.Precomputed.Dp), c14I(chk.Precomputed.Dq), c14I(chk.Precomputed.Qinv)
		}
		return key
	}
}

func (k *c14Key) public() *c14Key {
	switch k.Kind {
	case "rsa-priv":
		return &c14Key{Kind: "rsa-pub", N: k.N, E: k.E, Valid: k.Valid}
	case "ec-priv":
		return &c14Key{Kind: "ec-pub", Curve: k.Curve, X: k.X, Y: k.Y, Valid: k.Valid}
	}
	return k
}

// c14GenEC: style 0 = random scalar, 1 = small scalar (leading zero bytes in fixed-width
// encodings), 2 = scalar with the top bit of the order's length set, 3 = N-1.
func c14GenEC(r *h.Rand, curve string, style int) *c14Key {
	c := c14Curve(curve)
	n := c.Params().N
	var d *big.Int
	for {
		switch style {
		case 1:
			d = c14RandBig(r, 8+r.Intn(56))
		case 2:
			d = c14RandBig(r, n.BitLen())
			d.SetBit(d, n.BitLen()-1, 1)
		case 3:
			d = new(big.Int).Sub(n, big.NewInt(1))
		default:
			d = c14RandBig(r, n.BitLen())
		}
		if d.Sign() > 0 && d.Cmp(n) < 0 {
			break
		}
	}
	x, y := c.ScalarBaseMult(d.Bytes())
	return &c14Key{Kind: "ec-priv", Curve: curve, D: c14I(d), X: c14I(x), Y: c14I(y), Valid: curve != "OtherCurve"}
}

// ---------------------------------------------------------------- cases

type c14BuildCase struct {
	T     string `json:"t"` // "build"
	Key   *c14Key
	Entry int // 0 typed builder, 1 PrivateKey/PublicKey, 2 Pkcs1*Key(der), 3 Pkcs8PrivateKey(der), 4 Sec1PrivateKey(der), 5 X509PublicKey(der)
	KF    int // kmipclient.KeyFormat bits
	Ver   [2]int
	Usage int32
	Wire  string `json:",omitempty"` // "", ttlv, xml, json
}

type c14ObjCase struct {
	T     string `json:"t"` // "obj"
	Get   c14Get
	Wires []string `json:",omitempty"`
	Ver   [2]int
}

type c14SlotCase struct {
	T      string `json:"t"` // "slot"
	Format uint32
	Slot   int
}

// c14Run accumulates rows and talks to h.Ctx.
type c14Run struct {
	c      *h.Ctx
	p      *c14Pool
	env    *c14Env
	build  []string
	acc    []string
	wire   []string
	slot   []string
	nbuild int
}

func (k *c14Key) der(entry int) ([]byte, error) {
	switch {
	case entry == 2 && k.Kind == "rsa-priv":
		return x509.MarshalPKCS1PrivateKey(k.rsaPriv()), nil
	case entry == 2 && k.Kind == "rsa-pub":
		return x509.MarshalPKCS1PublicKey(k.rsaPub()), nil
	case entry == 3 && k.Kind == "rsa-priv":
		return x509.MarshalPKCS8PrivateKey(k.rsaPriv())
	case entry == 3 && k.Kind == "ec-priv":
		return x509.MarshalPKCS8PrivateKey(k.ecPriv())
	case entry == 4 && k.Kind == "ec-priv":
		return x509.MarshalECPrivateKey(k.ecPriv())
	case entry == 5 && k.Kind == "rsa-pub":
		return x509.MarshalPKIXPublicKey(k.rsaPub())
	case entry == 5 && k.Kind == "ec-pub":
		return x509.MarshalPKIXPublicKey(k.ecPub())
	}
	return nil, fmt.Errorf("entry %d does not apply to %s", entry, k.Kind)
}

// callBuilder invokes the real Register builder.
func c14CallBuilder(cl *kmipclient.Client, bc *c14BuildCase, der []byte) kmipclient.ExecRegister {
	w := cl.Register().WithKeyFormat(kmipclient.KeyFormat(uint8(bc.KF)))
	usage := kmip.CryptographicUsageMask(bc.Usage)
	k := bc.Key
	switch bc.Entry {
	case 1:
		switch k.Kind {
		case "rsa-priv":
			return w.PrivateKey(k.rsaPriv(), usage)
		case "ec-priv":
			return w.PrivateKey(k.ecPriv(), usage)
		case "rsa-pub":
			return w.PublicKey(k.rsaPub(), usage)
		case "ec-pub":
			return w.PublicKey(k.ecPub(), usage)
		}
	case 2:
		if k.Kind == "rsa-priv" {
			return w.Pkcs1PrivateKey(der, usage)
		}
		return w.Pkcs1PublicKey(der, usage)
	case 3:
		return w.Pkcs8PrivateKey(der, usage)
	case 4:
		return w.Sec1PrivateKey(der, usage)
	case 5:
		return w.X509PublicKey(der, usage)
	}
	switch k.Kind {
	case "rsa-priv":
		return w.RsaPrivateKey(k.rsaPriv(), usage)
	case "rsa-pub":
		return w.RsaPublicKey(k.rsaPub(), usage)
	case "ec-priv":
		return w.EcdsaPrivateKey(k.ecPriv(), usage)
	case "ec-pub":
		return w.EcdsaPublicKey(k.ecPub(), usage)
	case "sym":
		return w.SymmetricKey(kmip.CryptographicAlgorithm(k.Alg), usage, append([]byte{}, k.Bytes...))
	default:
		return w.Secret(kmip.SecretDataType(k.SecretKind), append([]byte{}, k.Bytes...))
	}
}

func c14WireStable(o *c14Object) bool {
	if o.KB == nil || o.KB.Value == nil {
		return true
	}
	v := o.KB.Value
	if v.Wrapped != nil && v.Plain == nil {
		return true
	}
	if v.Wrapped != nil || v.Plain == nil {
		return false
	}
	pop := v.Plain.Material.populated()
	if len(pop) != 1 {
		return false
	}
	want := -1
	switch kmip.KeyFormatType(o.KB.Format) {
	case kmip.KeyFormatTypeRaw, kmip.KeyFormatTypeOpaque, kmip.KeyFormatTypePKCS_1, kmip.KeyFormatTypePKCS_8, kmip.KeyFormatTypeX_509, kmip.KeyFormatTypeECPrivateKey:
		want = 0
	case kmip.KeyFormatTypeTransparentSymmetricKey:
		want = 1
	case kmip.KeyFormatTypeTransparentRSAPrivateKey:
		want = 2
	case kmip.KeyFormatTypeTransparentRSAPublicKey:
		want = 3
	//nolint:staticcheck
	case kmip.KeyFormatTypeTransparentECDSAPrivateKey:
		want = 4
	//nolint:staticcheck
	case kmip.KeyFormatTypeTransparentECDSAPublicKey:
		want = 5
	case kmip.KeyFormatTypeTransparentECPrivateKey:
		want = 6
	case kmip.KeyFormatTypeTransparentECPublicKey:
		want = 7
	}
	return pop[0] == want
}

func c14Shape(o *c14Object) string {
	if o == nil {
		return "no-object"
	}
	if o.KB == nil {
		return o.Kind
	}
	s := fmt.Sprintf("%s/kft=%d/", o.Kind, o.KB.Format)
	switch {
	case o.KB.Value == nil:
		return s + "KeyValue=nil"
	case o.KB.Value.Plain == nil:
		return s + "Plain=nil"
	case len(o.KB.Value.Plain.Material.populated()) == 0:
		return s + "material-empty"
	case !c14WireStable(o):
		return s + "material-in-other-slot"
	}
	return s + "material-present"
}

// accRow runs all accessors on a payload, applies the no-panic oracle, and emits the model row.
func (r *c14Run) accRow(pl *payloads.GetResponsePayload, g *c14Get, extra func(*c14Tables), cas any, where string) []c14Obs {
	t := newC14Tables(r.p)
	t.object(g.Obj)
	if extra != nil {
		extra(t)
	}
	obs := c14RunAccessors(r.p, pl)
	for _, o := range obs {
		r.c.Count(fmt.Sprintf("accessor-outcome:%s", []string{"ok", "error", "panic"}[o.Class]))
		if o.Class == 2 {
			r.c.Fail("C14/panic/"+o.Name+"/"+c14ShapeTail(g.Obj), fmt.Sprintf("%s panicked (%s) on a %s object: %s", o.Name, where, c14Shape(g.Obj), o.Msg), cas)
		}
	}
	r.acc = append(r.acc, fmt.Sprintf("(%s, %s, %s)", t.term(), r.p.get(g), c14ObsList(obs)))
	r.c.IndexCase("mism_acc", len(r.acc)-1, cas)
	return obs
}

func c14GetOf(pl *payloads.GetResponsePayload) (*c14Get, error) {
	g := &c14Get{Type: uint32(pl.ObjectType)}
	if pl.Object != nil {
		o, err := c14ObjectFrom(pl.Object)
		if err != nil {
			return nil, err
		}
		g.Obj = o
	}
	return g, nil
}

func (r *c14Run) wireRow(orig *c14Object, wire string, ver [2]int, pl *payloads.GetResponsePayload, err error, cas any) *c14Get {
	obsTerm := "Err"
	var g *c14Get
	if err == nil {
		var e2 error
		if g, e2 = c14GetOf(pl); e2 != nil || g.Obj == nil {
			obsTerm, g = "OutOfFuel", nil
		} else {
			obsTerm = "(Ok " + r.p.object(g.Obj) + ")"
		}
	}
	r.c.Count("wire:" + wire)
	r.wire = append(r.wire, fmt.Sprintf("(%s, %s)", r.p.object(orig), obsTerm))
	r.c.IndexCase("mism_wire", len(r.wire)-1, cas)
	if c14WireStable(orig) && obsTerm != "(Ok "+r.p.object(orig)+")" {
		what := "decoding failed"
		if err != nil {
			what = err.Error()
		} else if g != nil {
			what = "decoded object differs"
		}
		r.c.Fail(fmt.Sprintf("C14/wire-changed-object/%s/%s", wire, strings.SplitN(c14Shape(orig), "/", 2)[0]),
			fmt.Sprintf("a %s object whose KeyFormatType designates the populated slot does not survive the %s encoding at %d.%d: %s", c14Shape(orig), wire, ver[0], ver[1], what), cas)
	}
	return g
}

func c14KeyEqual(a, b any) bool {
	type eq interface {
		Equal(x crypto.PrivateKey) bool
	}
	type eqp interface{ Equal(x crypto.PublicKey) bool }
	if a == nil || b == nil {
		return false
	}
	ok := false
	c14Safe(func() {
		if x, is := a.(eq); is {
			ok = x.Equal(b)
		} else if x, is := a.(eqp); is {
			ok = x.Equal(b)
		}
	})
	return ok
}

// runBuild executes one build / round-trip case.
func (r *c14Run) runBuild(bc *c14BuildCase) {
	c, p := r.c, r.p
	k := bc.Key
	r.nbuild++
	c.Count("build-kind:" + k.Kind)
	c.Count(fmt.Sprintf("build-version:%d.%d", bc.Ver[0], bc.Ver[1]))
	var der []byte
	if bc.Entry >= 2 {
		var err error
		if der, err = k.der(bc.Entry); err != nil {
			return
		}
	}
	t := newC14Tables(p)
	t.keyInput(k)
	if bc.Entry >= 2 {
		t.parses(der)
		if kk, err := x509.ParsePKCS1PrivateKey(der); err == nil {
			t.rsaPrivInput(kk)
		}
		if kk, err := x509.ParsePKCS1PublicKey(der); err == nil {
			t.rsaPubInput(kk)
		}
		if kk, err := x509.ParsePKCS8PrivateKey(der); err == nil {
			switch v := kk.(type) {
			case *rsa.PrivateKey:
				t.rsaPrivInput(v)
			case *ecdsa.PrivateKey:
				t.ecPrivInput(v)
			}
		}
		if kk, err := x509.ParseECPrivateKey(der); err == nil {
			t.ecPrivInput(kk)
		}
		if kk, err := x509.ParsePKIXPublicKey(der); err == nil {
			switch v := kk.(type) {
			case *rsa.PublicKey:
				t.rsaPubInput(v)
			case *ecdsa.PublicKey:
				t.ecPubInput(v)
			}
		}
	}
	inputTerm := p.input(k)
	cl, err := r.env.client(bc.Ver)
	if err != nil {
		c.Fail("C14/harness/client", "cannot create in-memory client: "+err.Error(), bc)
		return
	}
	var exec kmipclient.ExecRegister
	var pay kmip.OperationPayload
	var berr error
	pan, msg := c14Safe(func() {
		exec = c14CallBuilder(cl, bc, der)
		pay, berr = exec.Build()
	})
	obsTerm := "Err"
	var built *c14Object
	var req *payloads.RegisterRequestPayload
	switch {
	case pan:
		obsTerm = "Panic"
		c.Count("build-outcome:panic")
		if k.Valid {
			c.Fail("C14/build-panic/"+k.Kind, fmt.Sprintf("Register builder panicked on a well-formed %s key (KeyFormat %d, version %d.%d): %s", k.Kind, bc.KF, bc.Ver[0], bc.Ver[1], msg), bc)
		}
	case berr != nil:
		c.Count("build-outcome:error")
		if k.Valid {
			c.Fail("C14/build-error/"+k.Kind, fmt.Sprintf("Register builder rejected a well-formed %s key (KeyFormat %d, version %d.%d): %v", k.Kind, bc.KF, bc.Ver[0], bc.Ver[1], berr), bc)
		}
	default:
		c.Count("build-outcome:ok")
		req, _ = pay.(*payloads.RegisterRequestPayload)
		if req == nil || req.Object == nil {
			obsTerm = "OutOfFuel"
			break
		}
		o, err := c14ObjectFrom(req.Object)
		if err != nil {
			obsTerm = "OutOfFuel"
			break
		}
		built = o
		usage := "None"
		for i, a := range req.TemplateAttribute.Attribute {
			if m, ok := a.AttributeValue.(kmip.CryptographicUsageMask); ok && i == 0 && a.AttributeName == kmip.AttributeNameCryptographicUsageMask && a.AttributeIndex == nil {
				usage = "(Some " + h.Z(int64(m)) + ")"
			} else {
				usage = "(Some (-1))"
			}
		}
		obsTerm = fmt.Sprintf("(Ok (mk_req %d %s %s))", uint32(req.ObjectType), p.object(o), usage)
		if o.KB != nil {
			c.Count(fmt.Sprintf("built-format:%s/kft=%d", k.Kind, o.KB.Format))
		}
		if k.Valid && o.KB != nil {
			want := int32(-1)
			switch k.Kind {
			case "rsa-priv", "rsa-pub":
				want = int32(k.N.V.BitLen())
			case "ec-priv", "ec-pub":
				want = int32(c14Curve(k.Curve).Params().BitSize)
			case "sym":
				want = int32(8 * len(k.Bytes))
			}
			if want >= 0 && o.KB.Len != want {
				c.Fail("C14/cryptographic-length/"+k.Kind, fmt.Sprintf("built key block announces Cryptographic Length %d for a %d-bit %s key", o.KB.Len, want, k.Kind), bc)
			}
		}
		if !c14WireStable(o) {
			c.Fail(fmt.Sprintf("C14/slot-disagreement/%s", c14Shape(o)), "the builder's KeyFormatType does not designate the KeyMaterial slot it populated", bc)
		}
	}
	key := fmt.Sprintf("build/%s/%d/%d/%d.%d/%s", inputTerm, bc.Entry, bc.KF, bc.Ver[0], bc.Ver[1], bc.Wire)
	c.Eval(key, true)
	r.build = append(r.build, fmt.Sprintf("(%s, %d, %d, (%d, %d), %s, %s, %s, %s)", t.term(), bc.Entry, bc.KF, bc.Ver[0], bc.Ver[1], h.Z(int64(bc.Usage)), inputTerm, p.bytes(der), obsTerm))
	c.IndexCase("mism_build", len(r.build)-1, bc)
	if built == nil || bc.Wire == "" {
		return
	}
	// ---- transport over the real wire
	var pl *payloads.GetResponsePayload
	var werr error
	if bc.Wire == "ttlv" {
		ctx, cancel := context.WithTimeout(context.Background(), 20*time.Second)
		pan, msg := c14Safe(func() {
			if _, werr = exec.ExecContext(ctx); werr == nil {
				pl, werr = cl.Get("reg").ExecContext(ctx)
			}
			if werr == nil {
				c14LaterExchange(cl)
			}
		})
		cancel()
		if pan {
			werr = fmt.Errorf("PANIC in client: %s", msg)
		}
		if werr != nil {
			r.env.drop(bc.Ver)
		}
	} else {
		pl, werr = r.env.transport(bc.Wire, bc.Ver, req.Object)
	}
	g := r.wireRow(built, bc.Wire, bc.Ver, pl, werr, bc)
	if g == nil {
		return
	}
	// ---- extraction with the real accessors; oracle = the property statement
	obs := r.accRow(pl, g, func(t *c14Tables) { t.keyInput(k) }, bc, "after "+bc.Wire)
	if !k.Valid {
		return
	}
	fmtName := fmt.Sprintf("kft=%d", built.KB.Format)
	byAcc := map[string]c14Obs{}
	for _, o := range obs {
		byAcc[o.Acc] = o
	}
	expect := func(acc string, same func(v any) bool) {
		o := byAcc[acc]
		if o.Class != 0 || !same(o.Val) {
			c.Fail(fmt.Sprintf("C14/roundtrip/%s/%s/%s", k.Kind, fmtName, o.Name),
				fmt.Sprintf("%s on the transported object does not return the registered %s key (class %d %s)", o.Name, k.Kind, o.Class, o.Msg), bc)
		}
	}
	pemIs := func(typ string, parse func([]byte) (any, error), orig any) func(any) bool {
		return func(v any) bool {
			blk, _ := pem.Decode([]byte(v.(string)))
			if blk == nil || blk.Type != typ {
				return false
			}
			kk, err := parse(blk.Bytes)
			return err == nil && c14KeyEqual(orig, kk)
		}
	}
	p8 := func(b []byte) (any, error) { return x509.ParsePKCS8PrivateKey(b) }
	px := func(b []byte) (any, error) { return x509.ParsePKIXPublicKey(b) }
	switch k.Kind {
	case "rsa-priv":
		orig := k.rsaPriv()
		full := func(v any) bool {
			kk, ok := v.(*rsa.PrivateKey)
			if !ok || !orig.Equal(kk) || kk.E != orig.E {
				return false
			}
			if k.Dp != nil && (kk.Precomputed.Dp == nil || kk.Precomputed.Dp.Cmp(k.Dp.V) != 0 || kk.Precomputed.Dq.Cmp(k.Dq.V) != 0 || kk.Precomputed.Qinv.Cmp(k.Qinv.V) != 0) {
				return false
			}
			return true
		}
		expect("p6", full)
		expect("o9", full)
		expect("p8", func(v any) bool { return full(v) })
		expect("p9", pemIs("PRIVATE KEY", p8, orig))
	case "rsa-pub":
		orig := k.rsaPub()
		same := func(v any) bool { return c14KeyEqual(orig, v) }
		expect("p10", same)
		expect("o5", same)
		expect("p12", same)
		expect("p13", pemIs("PUBLIC KEY", px, orig))
	case "ec-priv":
		orig := k.ecPriv()
		same := func(v any) bool { return c14KeyEqual(orig, v) }
		expect("p7", same)
		expect("o10", same)
		expect("p8", same)
		expect("p9", pemIs("PRIVATE KEY", p8, orig))
	case "ec-pub":
		orig := k.ecPub()
		same := func(v any) bool { return c14KeyEqual(orig, v) }
		expect("p11", same)
		expect("o6", same)
		expect("p12", same)
		expect("p13", pemIs("PUBLIC KEY", px, orig))
	case "sym":
		same := func(v any) bool { b, ok := v.([]byte); return ok && bytes.Equal(b, k.Bytes) }
		expect("p3", same)
		expect("o2", same)
	case "secret":
		same := func(v any) bool { b, ok := v.([]byte); return ok && bytes.Equal(b, k.Bytes) }
		expect("p2", same)
		expect("o1", same)
		expect("p1", func(v any) bool { s, ok := v.(string); return ok && s == string(k.Bytes) })
	}
}

// runObj executes one accessor-totality case.
func (r *c14Run) runObj(oc *c14ObjCase) {
	c := r.c
	g := &oc.Get
	pl := &payloads.GetResponsePayload{ObjectType: kmip.ObjectType(g.Type), UniqueIdentifier: "obj"}
	if g.Obj != nil {
		pl.Object = g.Obj.toKmip()
	}
	c.Eval("obj/"+r.p.get(g)+"/"+strings.Join(oc.Wires, ","), true)
	c.Count("object-shape:" + strings.SplitN(c14Shape(g.Obj), "/kft", 2)[0] + "/" + c14ShapeTail(g.Obj))
	r.accRow(pl, g, nil, oc, "constructed")
	if g.Obj == nil || uint32(pl.Object.ObjectType()) != g.Type {
		return
	}
	if c14HasZeroBig(g.Obj) {
		c.Count("wire-skipped:zero-big-integer")
		return
	}
	for _, w := range oc.Wires {
		ww := w
		if w == "ttlv" && !c14WireStable(g.Obj) {
			// a codec panic in the client's read goroutine cannot be recovered; objects the
			// property says nothing about go through the same binary codec in-process
			ww = "ttlv-direct"
		}
		dec, err := r.env.transport(ww, oc.Ver, g.Obj.toKmip())
		g2 := r.wireRow(g.Obj, w, oc.Ver, dec, err, oc)
		if g2 != nil && r.p.get(g2) != r.p.get(g) {
			c.Count("decoded-differs:" + w)
			r.accRow(dec, g2, nil, oc, "decoded from "+w)
		}
	}
}

// c14HasZeroBig: the binary reader (ttlv.bytesToBigInt) and the text readers panic on a zero
// big integer, in the client's read goroutine where it cannot be recovered; that defect belongs
// to C02. Objects carrying a zero big integer are therefore not sent through the wire here.
func c14HasZeroBig(o *c14Object) bool {
	if o == nil || o.KB == nil || o.KB.Value == nil || o.KB.Value.Plain == nil {
		return false
	}
	m := &o.KB.Value.Plain.Material
	z := func(v *c14Int) bool { return v != nil && v.V.Sign() == 0 }
	if t := m.RsaPriv; t != nil && (z(&t.Mod) || z(t.D) || z(t.E) || z(t.P) || z(t.Q) || z(t.Dp) || z(t.Dq) || z(t.Qinv)) {
		return true
	}
	if t := m.RsaPub; t != nil && (z(&t.N) || z(&t.E)) {
		return true
	}
	return (m.EcdsaPriv != nil && z(&m.EcdsaPriv.D)) || (m.EcPriv != nil && z(&m.EcPriv.D))
}

func c14ShapeTail(o *c14Object) string {
	s := c14Shape(o)
	if i := strings.LastIndex(s, "/"); i >= 0 {
		return s[i+1:]
	}
	return s
}

// runSlot: encode a key block with one populated slot under a KeyFormatType, decode it, and see
// which slot the decoder filled.
func (r *c14Run) runSlot(sc *c14SlotCase, fx *c14Fixtures) {
	m := fx.single(sc.Slot)
	obj := &c14Object{Kind: "PrivateKey", KB: &c14KeyBlock{Format: sc.Format, Value: &c14KeyValue{Plain: &c14Plain{Material: m}}}}
	r.c.Eval(fmt.Sprintf("slot/%d/%d", sc.Format, sc.Slot), true)
	back := payloads.GetResponsePayload{ObjectType: kmip.ObjectTypePrivateKey}
	var err error
	pan, msg := c14Safe(func() {
		var dec kmip.PrivateKey
		if err = ttlv.UnmarshalTTLV(ttlv.MarshalTTLV(obj.toKmip()), &dec); err == nil {
			back.Object = &dec
		}
	})
	obs := "None"
	if pan || err != nil {
		if pan {
			// the binary reader's missing type checks (C02) make some mismatched pairs panic
			r.c.Count("slot-codec-panic-on-mismatched-pair")
			err = fmt.Errorf("panic: %s", msg)
		}
		if c14WireStable(obj) {
			r.c.Fail(fmt.Sprintf("C14/slot/designated-slot-not-decoded/kft=%d", sc.Format), "a key block whose KeyFormatType designates the populated slot does not decode: "+err.Error(), sc)
		}
	} else {
		g, e2 := c14GetOf(&back)
		if e2 == nil && g.Obj != nil && g.Obj.KB != nil && g.Obj.KB.Value != nil && g.Obj.KB.Value.Plain != nil {
			var l []string
			for _, i := range g.Obj.KB.Value.Plain.Material.populated() {
				l = append(l, c14Slots[i])
			}
			obs = "(Some " + h.List(l) + ")"
			// oracle: the decoded object is readable through the slot the format designates
			if !c14WireStable(g.Obj) {
				r.c.Fail(fmt.Sprintf("C14/slot/decoded-into-undesignated-slot/kft=%d", sc.Format), "decoder stored key material into a slot the KeyFormatType does not designate", sc)
			}
		} else {
			obs = "(Some [])"
		}
	}
	r.slot = append(r.slot, fmt.Sprintf("(%d, %s, %s)", sc.Format, c14Slots[sc.Slot], obs))
	r.c.IndexCase("mism_slot", len(r.slot)-1, sc)
}

// ---------------------------------------------------------------- fixtures for the exhaustive parts

type c14Fixtures struct {
	rsa, ec                                                                        *c14Key
	pkcs1priv, pkcs1pub, pkcs8rsa, pkcs8ec, pkcs8ed, pkixrsa, pkixec, pkixed, sec1 []byte
	q, qc                                                                          []byte
	cert                                                                           []byte
}

type c14Zero struct{}

func (c14Zero) Read(b []byte) (int, error) {
	for i := range b {
		b[i] = 0
	}
	return len(b), nil
}

func newC14Fixtures() *c14Fixtures {
	r := h.NewRand(14)
	fx := &c14Fixtures{rsa: c14GenRSA(r, 64, 0, true), ec: c14GenEC(r, "P224", 0)}
	must := func(b []byte, err error) []byte {
		if err != nil {
			panic(err)
		}
		return b
	}
	edPriv := ed25519.NewKeyFromSeed(bytes.Repeat([]byte{7}, 32))
	fx.pkcs1priv = x509.MarshalPKCS1PrivateKey(fx.rsa.rsaPriv())
	fx.pkcs1pub = x509.MarshalPKCS1PublicKey(fx.rsa.rsaPub())
	fx.pkcs8rsa = must(x509.MarshalPKCS8PrivateKey(fx.rsa.rsaPriv()))
	fx.pkcs8ec = must(x509.MarshalPKCS8PrivateKey(fx.ec.ecPriv()))
	fx.pkcs8ed = must(x509.MarshalPKCS8PrivateKey(edPriv))
	fx.pkixrsa = must(x509.MarshalPKIXPublicKey(fx.rsa.rsaPub()))
	fx.pkixec = must(x509.MarshalPKIXPublicKey(fx.ec.ecPub()))
	fx.pkixed = must(x509.MarshalPKIXPublicKey(edPriv.Public()))
	fx.sec1 = must(x509.MarshalECPrivateKey(fx.ec.ecPriv()))
	//nolint:staticcheck
	fx.q = elliptic.Marshal(elliptic.P224(), fx.ec.X.V, fx.ec.Y.V)
	fx.qc = elliptic.MarshalCompressed(elliptic.P224(), fx.ec.X.V, fx.ec.Y.V)
	tpl := &x509.Certificate{SerialNumber: big.NewInt(14), Subject: pkix.Name{CommonName: "c14"}, NotBefore: time.Unix(1700000000, 0), NotAfter: time.Unix(1900000000, 0)}
	fx.cert = must(x509.CreateCertificate(c14Zero{}, tpl, tpl, edPriv.Public(), edPriv))
	return fx
}

func c14B(b []byte) *[]byte { c := append([]byte{}, b...); return &c }

func (fx *c14Fixtures) tRsaPriv() *c14TRsaPriv {
	k := fx.rsa
	return &c14TRsaPriv{Mod: *k.N, D: k.D, E: c14I64(int64(k.E)), P: k.Primes[0], Q: k.Primes[1], Dp: k.Dp, Dq: k.Dq, Qinv: k.Qinv}
}

// single returns a material with exactly one populated slot.
func (fx *c14Fixtures) single(slot int) c14Material {
	var m c14Material
	crv := uint32(kmip.RecommendedCurveP_224)
	switch slot {
	case 0:
		m.Bytes = c14B([]byte{1, 2, 3, 4, 5})
	case 1:
		m.Sym = c14B(bytes.Repeat([]byte{0xA5}, 16))
	case 2:
		m.RsaPriv = fx.tRsaPriv()
	case 3:
		m.RsaPub = &c14RsaPubT{N: *fx.rsa.N, E: *c14I64(int64(fx.rsa.E))}
	case 4:
		m.EcdsaPriv = &c14CurveD{Curve: crv, D: *fx.ec.D}
	case 5:
		m.EcdsaPub = &c14CurveQ{Curve: crv, Q: fx.q}
	case 6:
		m.EcPriv = &c14CurveD{Curve: crv, D: *fx.ec.D}
	case 7:
		m.EcPub = &c14CurveQ{Curve: crv, Q: fx.q}
	}
	return m
}

func (fx *c14Fixtures) all() c14Material {
	var m c14Material
	for s := 0; s < 8; s++ {
		x := fx.single(s)
		switch s {
		case 0:
			m.Bytes = x.Bytes
		case 1:
			m.Sym = x.Sym
		case 2:
			m.RsaPriv = x.RsaPriv
		case 3:
			m.RsaPub = x.RsaPub
		case 4:
			m.EcdsaPriv = x.EcdsaPriv
		case 5:
			m.EcdsaPub = x.EcdsaPub
		case 6:
			m.EcPriv = x.EcPriv
		case 7:
			m.EcPub = x.EcPub
		}
	}
	return m
}

// bytesFor: byte strings worth putting in the Bytes slot of a (kind, format) key block.
func (fx *c14Fixtures) bytesFor(kind string, f uint32) [][]byte {
	switch kind {
	case "PublicKey":
		switch kmip.KeyFormatType(f) {
		case kmip.KeyFormatTypePKCS_1:
			return [][]byte{fx.pkcs1pub, fx.pkixrsa}
		case kmip.KeyFormatTypeX_509:
			return [][]byte{fx.pkixrsa, fx.pkixec, fx.pkixed, fx.pkcs1pub}
		}
	case "PrivateKey":
		switch kmip.KeyFormatType(f) {
		case kmip.KeyFormatTypePKCS_1:
			return [][]byte{fx.pkcs1priv, fx.sec1}
		case kmip.KeyFormatTypePKCS_8:
			return [][]byte{fx.pkcs8rsa, fx.pkcs8ec, fx.pkcs8ed, fx.pkcs1priv}
		case kmip.KeyFormatTypeECPrivateKey:
			return [][]byte{fx.sec1, fx.pkcs8ec}
		}
	}
	return [][]byte{{1, 2, 3, 4, 5}}
}

var c14TypeOf = map[string]uint32{"Certificate": 1, "SymmetricKey": 2, "PublicKey": 3, "PrivateKey": 4, "SplitKey": 5, "Template": 6, "SecretData": 7, "Opaque": 8, "PGPKey": 9}

// objects enumerates the accessor-totality space: every object type x KeyFormatType x every way
// the optional parts can be missing (KeyValue, Wrapped/Plain, each material slot, each big
// integer pointer), plus boundary values of the fields the accessors inspect.
func (fx *c14Fixtures) objects(thorough bool) []*c14ObjCase {
	var out []*c14ObjCase
	wires := []string{"ttlv", "xml", "json"}
	add := func(kind string, sub uint32, data []byte, kb *c14KeyBlock) {
		n := len(out)
		oc := &c14ObjCase{T: "obj", Get: c14Get{Type: c14TypeOf[kind], Obj: &c14Object{Kind: kind, Sub: sub, Bytes: data, KB: kb}}, Ver: [2]int{1, n % 5}}
		if thorough {
			oc.Wires = wires
		} else {
			oc.Wires = []string{wires[n%3]}
		}
		out = append(out, oc)
	}
	plain := func(m c14Material, attrs ...int32) *c14KeyValue {
		return &c14KeyValue{Plain: &c14Plain{Material: m, Attrs: attrs}}
	}
	for _, kind := range []string{"SecretData", "SymmetricKey", "PublicKey", "PrivateKey"} {
		for f := uint32(0); f <= 24; f++ {
			kb := func(v *c14KeyValue) *c14KeyBlock { return &c14KeyBlock{Format: f, Value: v, Alg: 4, Len: 64} }
			add(kind, 1, nil, kb(nil))
			add(kind, 1, nil, kb(&c14KeyValue{}))
			add(kind, 1, nil, kb(&c14KeyValue{Wrapped: c14B([]byte{9, 9, 9})}))
			add(kind, 1, nil, kb(&c14KeyValue{Wrapped: c14B([]byte{9}), Plain: &c14Plain{}}))
			add(kind, 1, nil, kb(plain(c14Material{}, 1, 2)))
			for s := 0; s < 8; s++ {
				if s == 0 {
					for _, b := range fx.bytesFor(kind, f) {
						add(kind, 1, nil, kb(plain(c14Material{Bytes: c14B(b)})))
					}
					continue
				}
				add(kind, 1, nil, kb(plain(fx.single(s), 7)))
			}
			add(kind, 1, nil, kb(plain(fx.all())))
		}
	}
	// transparent RSA private key: every subset of the seven big-integer pointers
	full := fx.tRsaPriv()
	for mask := 0; mask < 128; mask++ {
		t := *full
		for i, pp := range []**c14Int{&t.D, &t.E, &t.P, &t.Q, &t.Dp, &t.Dq, &t.Qinv} {
			if mask&(1<<i) != 0 {
				*pp = nil
			}
		}
		add("PrivateKey", 0, nil, &c14KeyBlock{Format: uint32(kmip.KeyFormatTypeTransparentRSAPrivateKey), Value: plain(c14Material{RsaPriv: &t})})
	}
	// odd integer values
	two63 := new(big.Int).Lsh(big.NewInt(1), 63)
	for _, e := range []*big.Int{big.NewInt(0), big.NewInt(-3), two63, new(big.Int).Sub(two63, big.NewInt(1)), new(big.Int).Neg(two63), new(big.Int).Lsh(big.NewInt(1), 70)} {
		for _, n := range []*big.Int{fx.rsa.N.V, big.NewInt(0), big.NewInt(-35)} {
			t := *full
			t.E, t.Mod = c14I(e), *c14I(n)
			add("PrivateKey", 0, nil, &c14KeyBlock{Format: uint32(kmip.KeyFormatTypeTransparentRSAPrivateKey), Value: plain(c14Material{RsaPriv: &t})})
			add("PublicKey", 0, nil, &c14KeyBlock{Format: uint32(kmip.KeyFormatTypeTransparentRSAPublicKey), Value: plain(c14Material{RsaPub: &c14RsaPubT{N: *c14I(n), E: *c14I(e)}})})
		}
	}
	// transparent EC public key: curves x point encodings x compression types, both format types
	curves := []uint32{uint32(kmip.RecommendedCurveP_224), uint32(kmip.RecommendedCurveP_256), uint32(kmip.RecommendedCurveP_384), uint32(kmip.RecommendedCurveP_521), uint32(kmip.RecommendedCurveP_192), 0, 0x7fffffff}
	pt := func(crv uint32, compressed bool) []byte {
		name, ok := c14CurveOfKmip(crv)
		if !ok {
			return fx.q
		}
		k := c14GenEC(h.NewRand(uint64(crv)), name, 0)
		if compressed {
			return elliptic.MarshalCompressed(c14Curve(name), k.X.V, k.Y.V)
		}
		//nolint:staticcheck
		return elliptic.Marshal(c14Curve(name), k.X.V, k.Y.V)
	}
	for _, f := range []uint32{15, 21} {
		for _, crv := range curves {
			for qi, q := range [][]byte{pt(crv, false), pt(crv, true), {4, 1, 2, 3}, {}} {
				for _, comp := range []uint32{0, 1, 2, 3, 4, 99} {
					m := c14Material{}
					if f == 15 {
						m.EcdsaPub = &c14CurveQ{Curve: crv, Q: q}
					} else {
						m.EcPub = &c14CurveQ{Curve: crv, Q: q}
					}
					_ = qi
					add("PublicKey", 0, nil, &c14KeyBlock{Format: f, Compression: comp, Value: plain(m)})
				}
			}
		}
	}
	// transparent EC private key: curves x scalars around the order and far outside it
	for _, f := range []uint32{14, 20} {
		for _, crv := range curves {
			n := big.NewInt(1000)
			if name, ok := c14CurveOfKmip(crv); ok {
				n = c14Curve(name).Params().N
			}
			ds := []*big.Int{big.NewInt(1), big.NewInt(0), big.NewInt(-5), new(big.Int).Sub(n, big.NewInt(1)), n, new(big.Int).Add(n, big.NewInt(1)),
				new(big.Int).Lsh(big.NewInt(1), 600), new(big.Int).Neg(new(big.Int).Lsh(big.NewInt(1), 600)), new(big.Int).Rsh(n, 9)}
			for _, d := range ds {
				m := c14Material{}
				if f == 14 {
					m.EcdsaPriv = &c14CurveD{Curve: crv, D: *c14I(d)}
				} else {
					m.EcPriv = &c14CurveD{Curve: crv, D: *c14I(d)}
				}
				add("PrivateKey", 0, nil, &c14KeyBlock{Format: f, Value: plain(m)})
			}
		}
	}
	// the other object types
	for _, kind := range []string{"SplitKey", "PGPKey"} {
		add(kind, 0, nil, &c14KeyBlock{Format: 1})
		add(kind, 0, nil, &c14KeyBlock{Format: 1, Value: &c14KeyValue{}})
		add(kind, 0, nil, &c14KeyBlock{Format: 1, Value: plain(fx.single(0), 3), Wrapping: true})
		add(kind, 0, nil, &c14KeyBlock{Format: 1, Value: &c14KeyValue{Wrapped: c14B([]byte{1, 2})}, Wrapping: true})
	}
	add("Certificate", 1, fx.cert, nil)
	add("Certificate", 2, fx.cert, nil)
	add("Certificate", 1, []byte{0x30, 0x03, 1, 2, 3}, nil)
	add("Certificate", 1, nil, nil)
	add("Opaque", 0, []byte{1, 2, 3}, nil)
	add("Template", 0, nil, nil)
	// payloads whose ObjectType disagrees with the object, or without object (not decodable, cheap to cover)
	n := len(out)
	for i := 0; i < n; i += 97 {
		g := out[i].Get
		g.Type = g.Type%9 + 1
		out = append(out, &c14ObjCase{T: "obj", Get: g, Ver: [2]int{1, 4}})
	}
	for ty := uint32(0); ty <= 10; ty++ {
		out = append(out, &c14ObjCase{T: "obj", Get: c14Get{Type: ty}, Ver: [2]int{1, 4}})
	}
	return out
}

// grid enumerates KeyFormat selector x version x key kind for the builders.
func (fx *c14Fixtures) grid(thorough bool) []*c14BuildCase {
	var out []*c14BuildCase
	var kfs []int
	for kf := 0; kf < 256; kf++ {
		if thorough || kf < 64 || kf%17 == 0 || kf == 255 || kf == 128 || kf == 72 || kf == 65 {
			kfs = append(kfs, kf)
		}
	}
	vers := [][2]int{{1, 0}, {1, 2}, {1, 3}, {1, 4}, {2, 0}, {0, 9}, {1, 10}}
	sym := &c14Key{Kind: "sym", Alg: 3, Bytes: bytes.Repeat([]byte{0x5A}, 16), Valid: true}
	sec := &c14Key{Kind: "secret", SecretKind: 1, Bytes: []byte("hello"), Valid: true}
	for _, kf := range kfs {
		out = append(out, &c14BuildCase{T: "build", Key: fx.rsa, KF: kf, Ver: vers[kf%4], Usage: 12})
		out = append(out, &c14BuildCase{T: "build", Key: fx.rsa.public(), KF: kf, Ver: vers[kf%4], Usage: 3})
		out = append(out, &c14BuildCase{T: "build", Key: sym, KF: kf, Ver: vers[kf%4], Usage: 12})
		for _, v := range vers {
			out = append(out, &c14BuildCase{T: "build", Key: fx.ec, KF: kf, Ver: v, Usage: 1})
			out = append(out, &c14BuildCase{T: "build", Key: fx.ec.public(), KF: kf, Ver: v, Usage: 2})
		}
	}
	for _, v := range vers {
		out = append(out, &c14BuildCase{T: "build", Key: sec, KF: 0, Ver: v})
	}
	return out
}

// illFormed: keys outside the property's quantifier, for the builders' panic / error points.
func (fx *c14Fixtures) illFormed() []*c14BuildCase {
	var out []*c14BuildCase
	for _, np := range []int{0, 1, 3} {
		k := *fx.rsa
		k.Valid = false
		k.Primes = nil
		for i := 0; i < np; i++ {
			k.Primes = append(k.Primes, fx.rsa.Primes[i%2])
		}
		if np == 3 {
			k.Primes[2] = nil
		}
		k.Dp, k.Dq, k.Qinv = nil, nil, nil
		kk := k
		out = append(out, &c14BuildCase{T: "build", Key: &kk, KF: 1, Ver: [2]int{1, 4}, Usage: 4})
	}
	nilPrime := *fx.rsa
	nilPrime.Valid = false
	nilPrime.Primes = []*c14Int{nil, fx.rsa.Primes[1]}
	out = append(out, &c14BuildCase{T: "build", Key: &nilPrime, KF: 1, Ver: [2]int{1, 4}, Usage: 4})
	off := *fx.ec.public()
	off.Valid = false
	off.Y = c14I(new(big.Int).Add(off.Y.V, big.NewInt(1)))
	for _, kf := range []int{0, 1, 2, 3} {
		for _, v := range [][2]int{{1, 2}, {1, 4}} {
			o := off
			out = append(out, &c14BuildCase{T: "build", Key: &o, KF: kf, Ver: v, Usage: 2})
		}
	}
	other := c14GenEC(h.NewRand(99), "OtherCurve", 0)
	for _, kf := range []int{0, 1, 4, 16} {
		out = append(out, &c14BuildCase{T: "build", Key: other, KF: kf, Ver: [2]int{1, 4}, Usage: 1})
		out = append(out, &c14BuildCase{T: "build", Key: other.public(), KF: kf, Ver: [2]int{1, 4}, Usage: 2})
	}
	return out
}

// random round-trip cases: random keys x selector x version x encoding x entry point.
func c14RandomCase(r *h.Rand, i int, thorough bool) *c14BuildCase {
	bc := &c14BuildCase{T: "build", Usage: int32(r.Intn(1 << 20)), Wire: []string{"ttlv", "xml", "json"}[i%3]}
	bc.Ver = [2]int{1, r.Intn(5)}
	kfPool := []int{0, 1, 1, 1, 2, 4, 8, 16, 32, 3, 5, 6, 33, 48, 63, 7}
	bc.KF = kfPool[r.Intn(len(kfPool))]
	if r.Chance(1, 4) {
		bc.KF = r.Intn(256)
	}
	sizes := []int{64, 96, 128, 192, 256, 384, 512}
	if thorough {
		sizes = append(sizes, 768, 1024, 2048)
	}
	curves := []string{"P224", "P256", "P384", "P521"}
	switch i % 6 {
	case 0:
		bc.Key = c14GenRSA(r, sizes[r.Intn(len(sizes))], r.Intn(3), r.Bool())
		if r.Chance(1, 3) {
			bc.Entry = []int{1, 2, 3}[r.Intn(3)]
		}
	case 1:
		bc.Key = c14GenRSA(r, sizes[r.Intn(len(sizes))], r.Intn(3), false).public()
		if r.Chance(1, 3) {
			bc.Entry = []int{1, 2, 5}[r.Intn(3)]
		}
	case 2:
		bc.Key = c14GenEC(r, curves[r.Intn(4)], r.Intn(4))
		if r.Chance(1, 3) {
			bc.Entry = []int{1, 3, 4}[r.Intn(3)]
		}
	case 3:
		bc.Key = c14GenEC(r, curves[r.Intn(4)], r.Intn(4)).public()
		if r.Chance(1, 3) {
			bc.Entry = []int{1, 5}[r.Intn(2)]
		}
	case 4:
		n := []int{0, 1, 7, 8, 16, 24, 32, 33, 64}[r.Intn(9)]
		b := r.Bytes(n)
		if n > 0 && r.Bool() {
			b[0] = []byte{0x00, 0x80, 0xFF}[r.Intn(3)]
		}
		bc.Key = &c14Key{Kind: "sym", Alg: uint32(1 + r.Intn(10)), Bytes: b, Valid: true}
	default:
		bc.Key = &c14Key{Kind: "secret", SecretKind: uint32(1 + r.Intn(2)), Bytes: r.Bytes(r.Intn(40)), Valid: true}
	}
	return bc
}

// ---------------------------------------------------------------- entry point

const c14Header = `From Coq Require Import ZArith List Bool.
From KV Require Import Base Cases KeyMat.
Import ListNotations.
Open Scope Z_scope.
Definition T0 := mk_tables [] [] [] [] [] [] [] [] [] [] [] [] [] [] [] [] [].
Inductive acc := AK (a : kb_acc) | AO (a : obj_acc) | AP (a : pl_acc).
Definition k1 := AK AGetMaterial. Definition k2 := AK AGetBytes. Definition k3 := AK AGetAttributes.
Definition o1 := AO ASecretData. Definition o2 := AO ASymKeyMaterial. Definition o3 := AO ACertX509. Definition o4 := AO ACertPem.
Definition o5 := AO APubRSA. Definition o6 := AO APubECDSA. Definition o7 := AO APubCrypto. Definition o8 := AO APubPem.
Definition o9 := AO APrivRSA. Definition o10 := AO APrivECDSA. Definition o11 := AO APrivCrypto. Definition o12 := AO APrivPem.
Definition p1 := AP PSecretString. Definition p2 := AP PSecret. Definition p3 := AP PSymmetricKey. Definition p4 := AP PX509Certificate.
Definition p5 := AP PPemCertificate. Definition p6 := AP PRsaPrivateKey. Definition p7 := AP PEcdsaPrivateKey. Definition p8 := AP PPrivateKey.
Definition p9 := AP PPemPrivateKey. Definition p10 := AP PRsaPublicKey. Definition p11 := AP PEcdsaPublicKey. Definition p12 := AP PPublicKey.
Definition p13 := AP PPemPublicKey.
Definition run_acc (C : crypto) (a : acc) (g : get_resp) : res value :=
  match a with
  | AK a => match gr_obj g with
            | Some o => match object_key_block o with Some kb => run_kb_acc a kb | None => Err end
            | None => Err
            end
  | AO a => match gr_obj g with Some o => run_obj_acc C a o | None => Err end
  | AP a => run_pl_acc C a g
  end.
Definition acc_row_ok (r : tables * get_resp * list (acc * res value)) : bool :=
  let '(t, g, l) := r in
  let C := crypto_of_tables t in
  forallb (fun p => res_eqb value_eqb (run_acc C (fst p) g) (snd p)) l.
Definition build_model (C : crypto) (entry kf : Z) (ver : Z * Z) (usage : Z) (i : reg_input) (der : bytes) : res reg_req :=
  if entry =? 0 then build C kf ver usage i
  else if entry =? 1 then
    match i with
    | RegRsaPriv k => reg_private_key C kf ver usage (PrivRsa k)
    | RegEcPriv k => reg_private_key C kf ver usage (PrivEc k)
    | RegRsaPub k => reg_public_key C kf ver usage (PubRsa k)
    | RegEcPub k => reg_public_key C kf ver usage (PubEc k)
    | _ => build C kf ver usage i
    end
  else if entry =? 2 then
    match i with RegRsaPriv _ => reg_pkcs1_priv_der C kf usage der | _ => reg_pkcs1_pub_der C kf usage der end
  else if entry =? 3 then reg_pkcs8_der C kf ver usage der
  else if entry =? 4 then reg_sec1_der C kf ver usage der
  else reg_x509_der C kf ver usage der.
Definition build_row_ok (r : tables * Z * Z * (Z * Z) * Z * reg_input * bytes * res reg_req) : bool :=
  let '(t, entry, kf, ver, usage, i, der, obs) := r in
  res_eqb reg_req_eqb (build_model (crypto_of_tables t) entry kf ver usage i der) obs.
Definition wire_row_ok (r : object * res object) : bool :=
  let '(o, obs) := r in
  (if wire_stable o then res_eqb object_eqb (Ok o) obs else true)
  && match obs with Ok o' => decodable o' | _ => true end.
Definition slot_row_ok (r : Z * slot * option (list slot)) : bool :=
  let '(f, s, obs) := r in
  match obs with
  | Some l => match decode_slot f with Some s' => list_eqb slot_eqb l [s'] | None => false end
  | None => negb (option_eqb slot_eqb (decode_slot f) (Some s))
  end.
`

func driveC14(c *h.Ctx) error {
	c.Rule("(1) builders: KeyFormat selector (all 64 combinations of the six format bits + values with the two unused bits) x versions {1.0,1.2,1.3,1.4,2.0,0.9,1.10} x " +
		"{RSA private, RSA public, ECDSA private, ECDSA public, symmetric, secret} through the real kmipclient.Register() builders, plus ill-formed keys (0/1/3 primes, nil prime, point off curve, unsupported curve); " +
		"(2) round trips: random RSA keys (64..512 bits, thorough ..2048; moduli on and off byte boundaries, unbalanced primes, with and without CRT values, six exponents) and ECDSA keys on P-224/256/384/521 " +
		"(random, small, top-bit and N-1 scalars), symmetric keys and secrets x selector x versions 1.0..1.4 x {binary TTLV through an in-memory client/server pair, XML, JSON} x entry points (typed, generic, DER), " +
		"extracted with every accessor and compared with the registered key by Equal; " +
		"(3) accessor totality: {SecretData,SymmetricKey,PublicKey,PrivateKey} x KeyFormatType 0..24 x {KeyValue nil, empty, wrapped, wrapped+plain, plain with empty material, each single material slot, all slots}, " +
		"all 128 subsets of the transparent RSA private key's pointers, boundary exponents/moduli, EC public keys over 7 curve codes x 4 point encodings x 6 compression types x 2 formats, " +
		"EC private scalars around the order and far outside it, SplitKey/PGPKey/Certificate/Opaque/Template, payloads with a foreign or missing object; every accessor of objects.go and payloads/get.go run on the constructed object and on what each wire decodes; " +
		"(4) KeyFormatType 0..26 x populated slot through the real encoder/decoder. A case is counted once per distinct (input term, selector, version, encoding)")
	p := newC14Pool()
	r := &c14Run{c: c, p: p, env: newC14Env()}
	defer r.env.close()
	fx := newC14Fixtures()
	thorough := !c.Quick()
	if c.Replay != nil {
		raw, _ := json.Marshal(c.Replay["case"])
		var head struct {
			T string `json:"t"`
		}
		_ = json.Unmarshal(raw, &head)
		switch head.T {
		case "build":
			var bc c14BuildCase
			if err := json.Unmarshal(raw, &bc); err != nil {
				return err
			}
			r.runBuild(&bc)
		case "obj":
			var oc c14ObjCase
			if err := json.Unmarshal(raw, &oc); err != nil {
				return err
			}
			r.runObj(&oc)
		case "slot":
			var sc c14SlotCase
			if err := json.Unmarshal(raw, &sc); err != nil {
				return err
			}
			r.runSlot(&sc, fx)
		default:
			return fmt.Errorf("replay file has no recognisable case")
		}
	} else {
		for _, bc := range fx.grid(thorough) {
			r.runBuild(bc)
		}
		for _, bc := range fx.illFormed() {
			r.runBuild(bc)
		}
		n := c.Pick(360, 4000)
		for i := 0; i < n; i++ {
			bc := c14RandomCase(c.Rng.Fork(uint64(i)), i, thorough)
			r.runBuild(bc)
			if i%29 == 0 {
				c.Sample(map[string]any{"kind": bc.Key.Kind, "key_format_bits": bc.KF, "version": fmt.Sprintf("%d.%d", bc.Ver[0], bc.Ver[1]), "wire": bc.Wire, "entry": bc.Entry})
			}
		}
		for _, oc := range fx.objects(thorough) {
			r.runObj(oc)
		}
		for f := uint32(0); f <= 26; f++ {
			for s := 0; s < 8; s++ {
				r.runSlot(&c14SlotCase{T: "slot", Format: f, Slot: s}, fx)
			}
		}
		c.Exhaustive(false)
	}
	var sb strings.Builder
	sb.WriteString(c14Header)
	bdefs, bexpr := h.Chunk("brows", "tables * Z * Z * (Z * Z) * Z * reg_input * bytes * res reg_req", r.build, 50)
	adefs, aexpr := h.Chunk("arows", "tables * get_resp * list (acc * res value)", r.acc, 50)
	wdefs, wexpr := h.Chunk("wrows", "object * res object", r.wire, 100)
	sdefs, sexpr := h.Chunk("srows", "Z * slot * option (list slot)", r.slot, 300)
	for _, d := range p.defs {
		sb.WriteString(d)
	}
	sb.WriteString(bdefs + adefs + wdefs + sdefs)
	fmt.Fprintf(&sb, "Definition mism_build := Eval vm_compute in bad_idx build_row_ok %s 0.\nPrint mism_build.\n", bexpr)
	fmt.Fprintf(&sb, "Definition mism_acc := Eval vm_compute in bad_idx acc_row_ok %s 0.\nPrint mism_acc.\n", aexpr)
	fmt.Fprintf(&sb, "Definition mism_wire := Eval vm_compute in bad_idx wire_row_ok %s 0.\nPrint mism_wire.\n", wexpr)
	fmt.Fprintf(&sb, "Definition mism_slot := Eval vm_compute in bad_idx slot_row_ok %s 0.\nPrint mism_slot.\n", sexpr)
	c.Extra("pool_definitions", len(p.defs))
	return c.WriteCases("cases_C14.v", sb.String(), len(r.build)+len(r.acc)+len(r.wire)+len(r.slot))
}
