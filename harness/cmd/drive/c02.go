package main

// C02: decoders never panic, hang, over-read or mutate on arbitrary input.
//
// Implementation side: ttlv.UnmarshalTTLV (targets: ttlv.Value - compared with the model -
// and kmip.RequestMessage / kmip.ResponseMessage / payload types - oracle only), ttlv.Stream.Recv
// and the HTTP handler fed the same bytes.
// Oracle per (input, target): the call returns (no panic, no hang), the input buffer is
// unchanged, a second decode gives the same result, and the result does not depend on
// bytes lying beyond the input slice (the input is handed over as a prefix of a larger
// allocation whose tail is filled with two different junk patterns, and as an exactly
// sized allocation).
// Model rows: (bytes, outcome for target ttlv.Value) against Cursor.unmarshal_value.

import (
	"bytes"
	"crypto/sha256"
	"encoding/binary"
	"encoding/hex"
	"fmt"
	"io"
	"net/http"
	"net/http/httptest"
	"reflect"
	"strings"
	"time"

	"github.com/ovh/kmip-go"
	"github.com/ovh/kmip-go/kmipserver"
	"github.com/ovh/kmip-go/payloads"
	"github.com/ovh/kmip-go/ttlv"

	"verifharness/internal/h"
	"verifharness/internal/tv"
)

func init() { h.Register("C02", driveC02) }

type c02in struct {
	b    []byte
	kind string
}

// c02Shapes enumerates single items type x declared length x available bytes, alone and nested.
func c02Shapes() []c02in {
	var out []c02in
	lens := []uint32{0, 1, 2, 3, 4, 5, 6, 7, 8, 9, 12, 15, 16, 17, 24, 0x7fffffff, 0x80000000, 0xfffffff8, 0xffffffff}
	for ty := 0; ty <= 12; ty++ {
		for _, l := range lens {
			pl := int(l)
			if l%8 != 0 {
				pl = int(l) + 8 - int(l%8)
			}
			avail := []int{0, 1, 8, 16}
			if l < 64 {
				avail = []int{0, int(l) - 1, int(l), pl, pl + 8}
			}
			for _, a := range avail {
				if a < 0 {
					continue
				}
				b := []byte{0x42, 0x00, 0x01, byte(ty)}
				b = binary.BigEndian.AppendUint32(b, l)
				for i := 0; i < a; i++ {
					b = append(b, byte(0x80+i)) // high bit set: negative big integers, non-zero booleans
				}
				out = append(out, c02in{b, "shape"})
				// nested in a structure whose length is exact, one byte short and 8 bytes long
				for _, d := range []int{0, -1, 8} {
					sl := len(b) + d
					if sl < 0 {
						continue
					}
					s := []byte{0x42, 0x00, 0x02, 0x01}
					s = binary.BigEndian.AppendUint32(s, uint32(sl))
					s = append(s, b...)
					for len(s)%8 != 0 {
						s = append(s, 0)
					}
					out = append(out, c02in{s, "nested-shape"})
				}
			}
		}
	}
	return out
}

type c02res struct {
	class string
	repr  string // canonical result (re-encoding) for ok
	msg   string
}

// c02Decode decodes b into a fresh value of type ty under recover + watchdog.
func c02Decode(b []byte, tg c02target) c02res {
	ty := tg.ty
	ch := make(chan c02res, 1)
	go func() {
		defer func() {
			if r := recover(); r != nil {
				ch <- c02res{class: "panic", msg: fmt.Sprint(r)}
			}
		}()
		ptr := reflect.New(ty)
		if tg.tag == 0 {
			if err := ttlv.UnmarshalTTLV(b, ptr.Interface()); err != nil {
				ch <- c02res{class: "err", msg: err.Error()}
				return
			}
		} else {
			dec, err := ttlv.NewTTLVDecoder(b)
			if err == nil {
				err = dec.TagAny(tg.tag, ptr.Interface())
			}
			if err != nil {
				ch <- c02res{class: "err", msg: err.Error()}
				return
			}
		}
		// canonical form: re-encode (may itself panic: that is a C18 matter, reported there)
		reprOnce := func() (s string) {
			defer func() {
				if r := recover(); r != nil {
					s = "reencode-panic"
				}
			}()
			if tg.tag == 0 {
				return hex.EncodeToString(ttlv.MarshalTTLV(ptr.Interface()))
			}
			enc := ttlv.NewTTLVEncoder()
			enc.TagAny(tg.tag, ptr.Interface())
			return hex.EncodeToString(enc.Bytes())
		}
		repr := reprOnce()
		// the decoded value is the caller's: rewriting the input buffer afterwards does not change it
		for i := range b {
			b[i] ^= 0xA5
		}
		again := reprOnce()
		for i := range b {
			b[i] ^= 0xA5
		}
		if again != repr && repr != "reencode-panic" && again != "reencode-panic" {
			ch <- c02res{class: "ok", repr: repr, msg: "ALIASES-INPUT"}
			return
		}
		ch <- c02res{class: "ok", repr: repr}
	}()
	select {
	case r := <-ch:
		return r
	case <-time.After(20 * time.Second):
		return c02res{class: "hang"}
	}
}

type rwc struct {
	io.Reader
}

func (rwc) Write(p []byte) (int, error) { return len(p), nil }
func (rwc) Close() error                { return nil }

func c02Stream(b []byte) (class string) {
	ch := make(chan string, 1)
	go func() {
		defer func() {
			if r := recover(); r != nil {
				ch <- "panic: " + fmt.Sprint(r)
			}
		}()
		s := ttlv.NewStream(rwc{bytes.NewReader(b)}, 1<<20)
		var v ttlv.Value
		if err := s.Recv(&v); err != nil {
			ch <- "err"
			return
		}
		ch <- "ok"
	}()
	select {
	case r := <-ch:
		return r
	case <-time.After(20 * time.Second):
		return "hang"
	}
}

func c02HTTP(b []byte, ctype string) (class string) {
	ch := make(chan string, 1)
	go func() {
		defer func() {
			if r := recover(); r != nil {
				ch <- "panic: " + fmt.Sprint(r)
			}
		}()
		hd := kmipserver.NewHTTPHandler(kmipserver.NewBatchExecutor())
		req := httptest.NewRequest(http.MethodPost, "/kmip", bytes.NewReader(b))
		req.Header.Set("Content-Type", ctype)
		req.Header.Set("Content-Length", fmt.Sprint(len(b)))
		rec := httptest.NewRecorder()
		hd.ServeHTTP(rec, req)
		ch <- "ok"
	}()
	select {
	case r := <-ch:
		return r
	case <-time.After(20 * time.Second):
		return "hang"
	}
}

// a decode target: Go type and, for types without a default tag, the tag it is decoded with
type c02target struct {
	ty  reflect.Type
	tag int
}

var c02Targets = []c02target{
	{reflect.TypeFor[ttlv.Value](), 0},
	{reflect.TypeFor[kmip.RequestMessage](), 0},
	{reflect.TypeFor[kmip.ResponseMessage](), 0},
	{reflect.TypeFor[payloads.GetResponsePayload](), kmip.TagResponsePayload},
	{reflect.TypeFor[payloads.RegisterRequestPayload](), kmip.TagRequestPayload},
	{reflect.TypeFor[kmip.Attribute](), 0},
	{reflect.TypeFor[kmip.KeyBlock](), 0},
	{reflect.TypeFor[kmip.Credential](), 0},
	{reflect.TypeFor[kmip.TransparentRSAPrivateKey](), kmip.TagKeyMaterial},
}

func c02Marshal(tag int, v any) []byte {
	enc := ttlv.NewTTLVEncoder()
	enc.TagAny(tag, v)
	return append([]byte{}, enc.Bytes()...)
}

// realistic seeds for the typed targets
func c02Seeds() [][]byte {
	ts := time.Unix(1700000000, 0)
	idx := int32(0)
	req := kmip.RequestMessage{
		Header: kmip.RequestHeader{ProtocolVersion: kmip.V1_4, BatchCount: 2, TimeStamp: &ts,
			Authentication: &kmip.Authentication{Credential: kmip.Credential{CredentialType: kmip.CredentialTypeUsernameAndPassword,
				CredentialValue: kmip.CredentialValue{UserPassword: &kmip.CredentialValueUserPassword{Username: "u", Password: "p"}}}}},
		BatchItem: []kmip.RequestBatchItem{
			{Operation: kmip.OperationGet, UniqueBatchItemID: []byte{1}, RequestPayload: &payloads.GetRequestPayload{UniqueIdentifier: "id-1"}},
			{Operation: kmip.OperationRegister, UniqueBatchItemID: []byte{2}, RequestPayload: &payloads.RegisterRequestPayload{
				ObjectType: kmip.ObjectTypeSymmetricKey,
				TemplateAttribute: kmip.TemplateAttribute{Attribute: []kmip.Attribute{
					{AttributeName: kmip.AttributeNameCryptographicLength, AttributeIndex: &idx, AttributeValue: int32(256)},
					{AttributeName: "x-custom", AttributeValue: ttlv.Value{Tag: kmip.TagAttributeValue, Value: "hello"}}}},
				Object: &kmip.SymmetricKey{KeyBlock: kmip.KeyBlock{KeyFormatType: kmip.KeyFormatTypeRaw, CryptographicAlgorithm: kmip.CryptographicAlgorithmAES,
					CryptographicLength: 128, KeyValue: &kmip.KeyValue{Plain: &kmip.PlainKeyValue{KeyMaterial: kmip.KeyMaterial{Bytes: &[]byte{1, 2, 3, 4, 5, 6, 7, 8, 9, 10, 11, 12, 13, 14, 15, 16}}}}}}}},
		}}
	resp := kmip.ResponseMessage{
		Header: kmip.ResponseHeader{ProtocolVersion: kmip.V1_2, TimeStamp: ts, BatchCount: 2},
		BatchItem: []kmip.ResponseBatchItem{
			{Operation: kmip.OperationGet, ResultStatus: kmip.ResultStatusSuccess, ResponsePayload: &payloads.GetResponsePayload{
				ObjectType: kmip.ObjectTypePrivateKey, UniqueIdentifier: "k",
				Object: &kmip.PrivateKey{KeyBlock: kmip.KeyBlock{KeyFormatType: kmip.KeyFormatTypeTransparentRSAPrivateKey, KeyValue: &kmip.KeyValue{Plain: &kmip.PlainKeyValue{
					KeyMaterial: kmip.KeyMaterial{TransparentRSAPrivateKey: &kmip.TransparentRSAPrivateKey{Modulus: *tv.GenBig(h.NewRand(3)), PrivateExponent: tv.GenBig(h.NewRand(4))}}}}}}}},
			{Operation: kmip.OperationDestroy, ResultStatus: kmip.ResultStatusOperationFailed, ResultReason: kmip.ResultReasonItemNotFound, ResultMessage: "nope"},
		}}
	var out [][]byte
	out = append(out, ttlv.MarshalTTLV(&req), ttlv.MarshalTTLV(&resp))
	out = append(out, c02Marshal(kmip.TagResponsePayload, resp.BatchItem[0].ResponsePayload))
	out = append(out, c02Marshal(kmip.TagRequestPayload, req.BatchItem[1].RequestPayload))
	return out
}

func driveC02(c *h.Ctx) error {
	c.Rule("a case is (byte string, decode target); inputs: exhaustive single-item shapes type 0..12 x declared length x available bytes alone and nested in a structure with exact/short/long length, TTLV-aware mutations (1-3 per input) of valid generic trees and of real KMIP messages, truncations at every offset of a message, short random strings; and, for the XML and JSON decoders, the text forms of real messages and generic trees with byte-level and token-level damage (truncation, byte replacement, range deletion / duplication, other type names, other value literals and JSON value kinds, missing value); non-trivial = distinct input")
	var ins []c02in
	if c.Replay != nil {
		cs, _ := c.Replay["case"].(map[string]any)
		hx, _ := cs["input_hex"].(string)
		b, _ := hex.DecodeString(hx)
		if f, _ := cs["format"].(string); f == "" {
			ins = []c02in{{b, "replay"}}
		}
	} else {
		ins = c02Shapes()
		nmut := c.Pick(700, 12000)
		for i := 0; i < nmut; i++ {
			r := c.Rng.Fork(uint64(i))
			n := tv.Gen(r, 1+i%3)
			b := tv.SpecGen(n, r)
			k := 1 + r.Intn(3)
			names := ""
			for j := 0; j < k; j++ {
				var nm string
				b, nm = tv.Mutate(r, b)
				names += "+" + nm
			}
			if len(b) > 400 {
				continue
			}
			ins = append(ins, c02in{b, "mutated-tree"})
			c.Count("mutation:" + names[1:])
		}
		seeds := c02Seeds()
		for si, s := range seeds {
			for i := 0; i < c.Pick(150, 3000); i++ {
				r := c.Rng.Fork(uint64(1000000 + si*100000 + i))
				b := s
				for j := 0; j < 1+r.Intn(2); j++ {
					b, _ = tv.Mutate(r, b)
				}
				ins = append(ins, c02in{b, "mutated-message"})
			}
			step := c.Pick(7, 1)
			for off := 0; off < len(s); off += step {
				ins = append(ins, c02in{append([]byte{}, s[:off]...), "truncated-message"})
			}
		}
		for i := 0; i < c.Pick(100, 2000); i++ {
			r := c.Rng.Fork(uint64(2000000 + i))
			ins = append(ins, c02in{r.Bytes(r.Intn(40)), "random"})
		}
	}
	var rows []string
	for i, in := range ins {
		hx := hex.EncodeToString(in.b)
		c.Eval(hx, true)
		c.Count("input:" + in.kind)
		caseJSON := map[string]any{"input_hex": hx, "kind": in.kind}
		if i%997 == 0 {
			c.Sample(caseJSON)
		}
		sum := sha256.Sum256(in.b)
		for ti, ty := range c02Targets {
			if in.kind == "mutated-message" || in.kind == "truncated-message" {
				// keep typed targets on message inputs; the generic tree sees everything
			} else if ti > 0 && i%3 != ti%3 {
				continue
			}
			tname := ty.ty.String()
			// exactly sized allocation
			exact := make([]byte, len(in.b))
			copy(exact, in.b)
			r0 := c02Decode(exact, ty)
			c.Count("outcome:" + r0.class)
			cj := map[string]any{"input_hex": hx, "kind": in.kind, "target": tname, "observed": r0.class, "msg": r0.msg}
			switch r0.class {
			case "ok":
				if r0.msg == "ALIASES-INPUT" {
					c.Fail("C02/bin/decoded-value-aliases-input/"+tname, "the decoded value changed when the input buffer was overwritten after decoding (it shares memory with the input)", cj)
				}
			case "panic":
				c.Fail("C02/bin/panic/"+tname, "UnmarshalTTLV panicked: "+r0.msg, cj)
			case "hang":
				c.Fail("C02/bin/hang/"+tname, "UnmarshalTTLV did not return within 20 s", cj)
			}
			if sha256.Sum256(exact) != sum {
				c.Fail("C02/bin/input-mutated/"+tname, "the input buffer was modified by the decoder", cj)
			}
			// second decode of the same buffer
			r1 := c02Decode(exact, ty)
			if r1.class != r0.class || r1.repr != r0.repr {
				c.Fail("C02/bin/not-deterministic/"+tname, fmt.Sprintf("second decode of the same buffer: %s/%s then %s/%s", r0.class, r0.repr, r1.class, r1.repr), cj)
			}
			// prefix of a larger allocation, two junk tails
			for _, junk := range []byte{0x00, 0xa5} {
				big := make([]byte, len(in.b), len(in.b)+96)
				copy(big, in.b)
				tail := big[len(in.b):cap(big)]
				for k := range tail {
					tail[k] = junk + byte(k%3)
				}
				// a plausible header in the tail so that an over-read "succeeds"
				copy(tail, []byte{0x42, 0x00, 0x01, 0x02, 0, 0, 0, 4, 0, 0, 0, 7, 0, 0, 0, 0})
				r2 := c02Decode(big, ty)
				if r2.class != r0.class || r2.repr != r0.repr {
					c.Fail("C02/bin/over-read/"+tname, fmt.Sprintf("result depends on bytes beyond the input: exact allocation %s/%s, with tail %s/%s", r0.class, r0.repr, r2.class, r2.repr), cj)
				}
			}
			if ti == 0 {
				o := tv.DecodeValue(exact)
				if o.Class == "ok" && o.Bad {
					c.Fail("C02/bin/unexpected-dynamic-type", "decoded ttlv.Value holds an unexpected Go type", cj)
				}
				rows = append(rows, fmt.Sprintf("(%s, %s)", h.HexBytes(in.b), tv.CoqObsItem(o)))
				c.IndexCase("mism_dec", len(rows)-1, cj)
			}
		}
		// framing layer and HTTP entry point on the same bytes
		if i%4 == 0 || c.Replay != nil {
			if r := c02Stream(in.b); strings.HasPrefix(r, "panic") || r == "hang" {
				c.Fail("C02/stream/"+strings.SplitN(r, ":", 2)[0], "Stream.Recv: "+r, caseJSON)
			}
			if len(in.b) > 0 {
				if r := c02HTTP(in.b, "application/octet-stream"); strings.HasPrefix(r, "panic") || r == "hang" {
					c.Fail("C02/http/"+strings.SplitN(r, ":", 2)[0], "ServeHTTP(application/octet-stream): "+r, caseJSON)
				}
			}
		}
	}
	var opRows []string
	if c.Replay == nil {
		opRows = c02OpsRows(c, c.Pick(600, 8000))
	}
	// the text encodings on damaged documents (oracle only; their model side is C04's)
	c02Text(c)
	var sb strings.Builder
	sb.WriteString("From Coq Require Import ZArith List Bool.\nFrom KV Require Import Base Wire Cursor Reader Cases CodecRows.\nImport ListNotations.\nOpen Scope Z_scope.\n")
	d, e := h.Chunk("drows", "list Z * obs item", rows, 200)
	sb.WriteString(d)
	d2, e2 := h.Chunk("orows", "Z * list rop * list Z * list rout", opRows, 200)
	sb.WriteString(d2)
	fmt.Fprintf(&sb, "Definition mism_dec := Eval vm_compute in bad_idx row_dec %s 0.\nPrint mism_dec.\n", e)
	fmt.Fprintf(&sb, "Definition mism_ops := Eval vm_compute in bad_idx row_ops %s 0.\nPrint mism_ops.\n", e2)
	return c.WriteCases("cases_C02.v", sb.String(), len(rows)+len(opRows))
}
