package main

// C07, many streams at once (oracle only): "for every sequence of messages written to a TTLV stream ...
// the receiver returns exactly the sent messages in order" also when other streams of the same process
// are sending at the same moment and the transport is slow to take the bytes.  Each of 16 streams has
// its own pipe; all senders write while the receivers start late, so every Send overlaps the blocked
// writes of the others.  Every receiver must get its own stream's messages, in order.

import (
	"fmt"
	"net"
	"sync"
	"time"

	"github.com/ovh/kmip-go"
	"github.com/ovh/kmip-go/payloads"
	"github.com/ovh/kmip-go/ttlv"

	"verifharness/internal/h"
)

func c07Concurrent(c *h.Ctx) {
	const nstreams, nmsgs = 16, 3
	type res struct {
		got []string
		err string
	}
	out := make([]res, nstreams)
	var wg sync.WaitGroup
	start := make(chan struct{})
	for s := 0; s < nstreams; s++ {
		a, b := net.Pipe()
		wg.Add(2)
		go func(s int) {
			defer wg.Done()
			defer a.Close()
			st := ttlv.NewStream(a, -1)
			<-start
			_ = a.SetDeadline(time.Now().Add(10 * time.Second))
			for k := 0; k < nmsgs; k++ {
				// different sizes per stream, so that a mixed-up frame also desynchronises the stream
				id := fmt.Sprintf("stream-%02d-msg-%d-%s", s, k, string(make([]byte, s*7))[:0]) + fmt.Sprintf("%0*d", 1+s*5, k)
				msg := kmip.NewRequestMessage(kmip.V1_4, &payloads.GetRequestPayload{UniqueIdentifier: id})
				if err := st.Send(&msg); err != nil {
					return
				}
			}
		}(s)
		go func(s int) {
			defer wg.Done()
			defer b.Close()
			st := ttlv.NewStream(b, -1)
			<-start
			time.Sleep(time.Duration(20+s%4*5) * time.Millisecond) // the senders are blocked in Write meanwhile
			_ = b.SetDeadline(time.Now().Add(10 * time.Second))
			for k := 0; k < nmsgs; k++ {
				var msg kmip.RequestMessage
				if err := st.Recv(&msg); err != nil {
					out[s].err = err.Error()
					return
				}
				id := "?"
				if len(msg.BatchItem) == 1 {
					if p, ok := msg.BatchItem[0].RequestPayload.(*payloads.GetRequestPayload); ok {
						id = p.UniqueIdentifier
					}
				}
				out[s].got = append(out[s].got, id)
			}
		}(s)
	}
	close(start)
	wg.Wait()
	c.Eval("concurrent-streams", true)
	c.Count("leg:concurrent-streams")
	for s := 0; s < nstreams; s++ {
		for k := 0; k < nmsgs; k++ {
			want := fmt.Sprintf("stream-%02d-msg-%d-", s, k) + fmt.Sprintf("%0*d", 1+s*5, k)
			got := "(nothing: " + out[s].err + ")"
			if k < len(out[s].got) {
				got = out[s].got[k]
			}
			if got != want {
				c.Fail("C07/concurrent-streams/foreign-or-missing-message", fmt.Sprintf("stream %d, message %d: the receiver got %q, sent was %q (16 streams sending at once, receivers starting late)", s, k, got, want),
					map[string]any{"leg": "concurrent-streams"})
				return
			}
		}
	}
}
