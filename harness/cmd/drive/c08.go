package main

// C08 - server stays available whatever clients and handlers do.
// Generation of client/handler scenarios, run on the real kmipserver.Server (srvsim.go),
// direct oracle of the property statement, rows for the model (cases_C08.v).

import (
	"encoding/json"
	"fmt"
	"strconv"
	"strings"

	"verifharness/internal/h"
)

func init() { h.Register("C08", driveC08) }

// ---------------------------------------------------------------- printing for Coq

func srvBehCoq(b string) string {
	switch {
	case b == "ok":
		return "BOk"
	case b == "slow" || b == "slowi":
		return "BSlow"
	case strings.HasPrefix(b, "typed:"):
		return "(BTyped " + b[6:] + ")"
	case b == "plain":
		return "BPlain"
	case strings.HasPrefix(b, "ptyped:"):
		return "(BPanicTyped " + b[7:] + ")"
	case b == "perr" || b == "pruntime" || b == "pnil":
		return "BPanicErr"
	case b == "pstr":
		return "BPanicStr"
	case b == "pstringer":
		return "BPanicStringer"
	case b == "pother":
		return "BPanicOther"
	case b == "noroute":
		return "BNoRoute"
	case b == "critical":
		return "BCritical"
	}
	return "BOk"
}

func srvItemsCoq(items []string) string {
	s := make([]string, len(items))
	for i, b := range items {
		s[i] = srvBehCoq(b)
	}
	return h.List(s)
}

// srvScriptCoq maps the script of one connection to the model's client actions.
// timerAtWait: the run showed that Shutdown's 3 s timer fired while the script waited for Shutdown.
func srvScriptCoq(cs srvConn, timerAtWait bool) string {
	var acts []string
	var pend []string
	havePend := false
	closed := false
	for _, st := range cs.Steps {
		switch st.Op {
		case "req":
			acts = append(acts, "CSend (MReq "+srvItemsCoq(st.Items)+")")
		case "resp":
			acts = append(acts, "CSend MResp")
		case "enc":
			acts = append(acts, "CSend MEnc")
		case "plain":
			acts = append(acts, "CSend MPlain")
		case "part":
			pend, havePend = st.Items, true
		case "rest":
			if havePend {
				acts = append(acts, "CSend (MReq "+srvItemsCoq(pend)+")")
				havePend = false
			}
		case "read":
			acts = append(acts, "CRead")
		case "close":
			acts = append(acts, "CClose")
			closed = true
		case "half":
			acts = append(acts, "CHalf")
		case "shutdown":
			acts = append(acts, "CShutdown")
		case "grace":
			acts = append(acts, "CTimer")
			timerAtWait = false
		case "waitshutdown":
			if timerAtWait {
				acts = append(acts, "CTimer")
				timerAtWait = false
			}
		}
	}
	if !closed {
		acts = append(acts, "CClose")
	}
	tls := "None"
	switch cs.TLS {
	case "ok":
		tls = "(Some true)"
	case "fail", "silent", "silent3":
		tls = "(Some false)" // the handshake never completes
	}
	return fmt.Sprintf("{| s_tls := %s; s_hook := %s; s_sync := %s; s_script := %s |}", tls, h.Bool(!cs.HookFail), h.Bool(cs.Sync), h.List(acts))
}

func srvObsCoq(o srvObs) string {
	switch o.K {
	case "eof":
		return "OEof"
	case "blocked":
		return "OBlocked"
	}
	if o.Inval {
		return fmt.Sprintf("ORes %s RInvalid", h.Z(int64(o.ID)))
	}
	it := make([]string, len(o.Items))
	for i, x := range o.Items {
		if x[0] == 0 {
			it[i] = "ISuccess"
		} else {
			it[i] = fmt.Sprintf("IFailed %d", x[1])
		}
	}
	return fmt.Sprintf("ORes %s (RItems %s)", h.Z(int64(o.ID)), h.List(it))
}

func srvOutcomeCoq(r srvResult, i int) string {
	if r.Crashed {
		return "None"
	}
	c := r.Conns[i]
	got := make([]string, len(c.Got))
	for k, o := range c.Got {
		got[k] = srvObsCoq(o)
	}
	ev := make([]string, 0, len(c.Events))
	for _, e := range c.Events {
		switch e {
		case "hookok":
			ev = append(ev, "LHookOk")
		case "hookfail":
			ev = append(ev, "LHookFail")
		case "hstart":
			ev = append(ev, "LHStart")
		case "hend":
			ev = append(ev, "LHEnd")
		case "termhook":
			ev = append(ev, "LTermHook")
		}
	}
	return fmt.Sprintf("(Some {| o_got := %s; o_panic := false; o_leak := %s; o_hooks := %s |})", h.List(got), h.Bool(len(r.Leak) > 0), h.List(ev))
}

// ---------------------------------------------------------------- the property statement, on the implementation

// expected result of one batch item, from the property text: ok -> success; typed error -> that
// reason; any other error or any panic -> operation failed (general failure, or the reason the
// panic value carries)
func srvExpectItem(b string) [2]int {
	switch {
	case b == "ok" || b == "slow" || b == "slowi":
		return [2]int{0, 0}
	case strings.HasPrefix(b, "typed:"):
		r, _ := strconv.Atoi(b[6:])
		return [2]int{1, r}
	case strings.HasPrefix(b, "ptyped:"):
		r, _ := strconv.Atoi(b[7:])
		return [2]int{1, r}
	case b == "noroute":
		return [2]int{1, 5}
	case b == "critical":
		return [2]int{1, 8}
	}
	return [2]int{1, 0x100}
}

type srvSent struct {
	kind  string // req enc plain
	items []string
	arg   int
}

// c08Oracle evaluates the statement of C08 on what was observed.
func c08Oracle(c *h.Ctx, sc srvScenario, r srvResult, caseJSON any, prop string) {
	if r.Crashed {
		cls := "other"
		switch {
		case strings.Contains(r.CrashMsg, "send on closed channel"):
			cls = "send-on-closed-channel"
		case strings.Contains(r.CrashMsg, "close of closed channel"):
			cls = "close-of-closed-channel"
		case strings.Contains(r.CrashMsg, "nil pointer"):
			cls = "nil-dereference"
		case strings.Contains(r.CrashMsg, "index out of range") || strings.Contains(r.CrashMsg, "slice bounds"):
			cls = "index-out-of-range"
		case strings.Contains(r.CrashMsg, "child died"):
			cls = "process-died"
		}
		c.Fail(prop+"/process-crash/"+cls, "the server process died: "+r.CrashMsg, caseJSON)
		return
	}
	if r.Hang {
		c.Fail(prop+"/scenario-hang", "scripts or Shutdown did not finish within the time limit", caseJSON)
		return
	}
	if len(r.Leak) > 0 {
		w := r.Leak[0]
		if i := strings.Index(w, " "); i > 0 {
			w = w[:i]
		}
		c.Fail(prop+"/goroutine-leak/"+w, "goroutines of ended connections still alive: "+strings.Join(r.Leak, "; "), caseJSON)
	}
	if !r.ProbeOK {
		c.Fail(prop+"/stops-serving", "a fresh connection was not served after the scenario", caseJSON)
	}
	// a silent peer does not hold up the others: their scripts finish long before it leaves
	silent := false
	for _, cs := range sc.Conns {
		if strings.HasPrefix(cs.TLS, "silent") {
			silent = true
		}
	}
	if silent {
		for i, cs := range sc.Conns {
			if !strings.HasPrefix(cs.TLS, "silent") && i < len(r.Conns) && (r.Conns[i].DoneMs > 1500 || r.Conns[i].Err != "") {
				c.Fail(prop+"/stops-serving/while-a-peer-is-silent", fmt.Sprintf("connection %d was not served while another peer stayed silent during its TLS handshake (script took %d ms, err %q)", i, r.Conns[i].DoneMs, r.Conns[i].Err), caseJSON)
			}
		}
	}
	anyShutdown := false
	for _, cs := range sc.Conns {
		for _, st := range cs.Steps {
			if st.Op == "shutdown" {
				anyShutdown = true
			}
		}
	}
	for i, cs := range sc.Conns {
		if i >= len(r.Conns) {
			break
		}
		got := r.Conns[i].Got
		// walk the script: what has been sent when each read happens, and whether the connection is still live
		var sent []srvSent
		var pend *srvSent
		live := cs.TLS != "fail" && !strings.HasPrefix(cs.TLS, "silent") && !cs.HookFail && !(anyShutdown && len(sc.Conns) > 1)
		fatalAt := -1 // index in sent of the first undecodable message
		gi := 0       // next observation
		answered := 0
		for _, st := range cs.Steps {
			switch st.Op {
			case "req":
				sent = append(sent, srvSent{kind: "req", items: st.Items})
			case "enc", "plain":
				if fatalAt < 0 {
					fatalAt = len(sent)
				}
				sent = append(sent, srvSent{kind: st.Op, arg: st.Arg})
			case "part":
				pend = &srvSent{kind: "req", items: st.Items}
			case "rest":
				if pend != nil {
					sent = append(sent, *pend)
					pend = nil
				}
			case "half", "close", "shutdown":
				live = false
			case "read":
				if gi >= len(got) {
					break
				}
				o := got[gi]
				gi++
				if o.K == "res" {
					// in order, each once, content as the handler outcome dictates
					if answered >= len(sent) {
						c.Fail(prop+"/response-without-request", fmt.Sprintf("conn %d: response %d received but only %d requests were sent", i, answered, len(sent)), caseJSON)
						break
					}
					if fatalAt >= 0 && answered > fatalAt {
						c.Fail(prop+"/response-after-invalid-message", fmt.Sprintf("conn %d: a response follows the invalid-message reply", i), caseJSON)
					}
					s := sent[answered]
					switch s.kind {
					case "req":
						if o.Inval || o.ID != answered {
							c.Fail(prop+"/response-order", fmt.Sprintf("conn %d: response #%d carries id %d (invalid-message=%v)", i, answered, o.ID, o.Inval), caseJSON)
						} else {
							okc := len(o.Items) == len(s.items)
							for k := 0; okc && k < len(s.items); k++ {
								if o.Items[k] != srvExpectItem(s.items[k]) {
									okc = false
									c.Fail(prop+"/response-content/"+strings.SplitN(s.items[k], ":", 2)[0],
										fmt.Sprintf("conn %d request %d item %d (%s): got status/reason %v, want %v", i, answered, k, s.items[k], o.Items[k], srvExpectItem(s.items[k])), caseJSON)
								}
							}
							if len(o.Items) != len(s.items) {
								c.Fail(prop+"/response-content/batch-length", fmt.Sprintf("conn %d request %d: %d items answered, %d sent", i, answered, len(o.Items), len(s.items)), caseJSON)
							}
						}
					default:
						if !o.Inval {
							c.Fail(prop+"/undecodable-wrong-reply/"+s.kind, fmt.Sprintf("conn %d: undecodable message #%d answered by %v", i, answered, o), caseJSON)
						}
					}
					answered++
				} else if live && answered < len(sent) && (fatalAt < 0 || answered <= fatalAt) {
					// a request on a live connection must be answered
					s := sent[answered]
					if s.kind == "req" {
						c.Fail(prop+"/unanswered-request", fmt.Sprintf("conn %d: request #%d on a live connection got %s instead of a response", i, answered, o.K), caseJSON)
					} else {
						v := "encoding-error"
						if s.kind == "plain" {
							v = "non-encoding-decode-error"
						}
						c.Fail(prop+"/undecodable-not-answered/"+v, fmt.Sprintf("conn %d: correctly framed undecodable message #%d (%s variant %d) got %s instead of an invalid-message response", i, answered, s.kind, s.arg, o.K), caseJSON)
					}
				} else if o.K == "blocked" && fatalAt >= 0 && answered > fatalAt {
					c.Fail(prop+"/not-closed-after-invalid-message", fmt.Sprintf("conn %d: connection left open after the invalid-message reply", i), caseJSON)
				}
			}
		}
	}
}

// ---------------------------------------------------------------- generation

var c08Behs = []string{"ok", "typed:1", "typed:12", "plain", "ptyped:7", "perr", "pruntime", "pnil", "pstr", "pstringer", "pother", "noroute", "critical", "slow"}

func c08Targeted() []srvScenario {
	one := func(cs srvConn) srvScenario { return srvScenario{Conns: []srvConn{cs}} }
	S := func(op string) srvStep { return srvStep{Op: op} }
	R := func(items ...string) srvStep { return srvStep{Op: "req", Items: items} }
	var l []srvScenario
	// every handler outcome, alone and inside a batch
	for _, b := range c08Behs {
		steps := []srvStep{R(b)}
		if b == "slow" {
			steps = append(steps, S("waith"), S("release"))
		}
		steps = append(steps, S("read"), R("ok", b, "ok"))
		if b == "slow" {
			steps = append(steps, S("waith"))
		}
		steps = append(steps, S("read"), S("close"))
		l = append(l, one(srvConn{Steps: steps}))
	}
	// undecodable messages: every variant, alone and after a served request
	for v := 0; v < srvEncVariants; v++ {
		l = append(l, one(srvConn{Steps: []srvStep{{Op: "enc", Arg: v}, S("read"), S("read"), S("close")}}))
		l = append(l, one(srvConn{Steps: []srvStep{R("ok"), S("read"), {Op: "enc", Arg: v}, R("ok"), S("read"), S("read"), S("close")}}))
	}
	for v := 0; v < srvPlainVariants; v++ {
		l = append(l, one(srvConn{Steps: []srvStep{{Op: "plain", Arg: v}, S("read"), S("read"), S("close")}}))
		l = append(l, one(srvConn{Steps: []srvStep{R("ok"), S("read"), {Op: "plain", Arg: v}, S("read"), S("read"), S("close")}}))
	}
	// pipelining
	l = append(l, one(srvConn{Steps: []srvStep{R("ok"), R("pstr"), R("typed:1"), R("ok", "ok"), S("read"), S("read"), S("read"), S("read"), S("close")}}))
	// client-originated responses are ignored
	l = append(l, one(srvConn{Steps: []srvStep{S("resp"), R("ok"), S("resp"), S("read"), S("close")}}))
	// truncated messages
	for _, n := range []int{1, 7, 8, 9, 40} {
		l = append(l, one(srvConn{Steps: []srvStep{{Op: "part", Items: []string{"ok"}, Arg: n}, S("close")}}))
		l = append(l, one(srvConn{Steps: []srvStep{{Op: "part", Items: []string{"ok"}, Arg: n}, S("settle"), S("rest"), S("read"), S("close")}}))
		l = append(l, one(srvConn{Steps: []srvStep{R("ok"), {Op: "part", Items: []string{"ok"}, Arg: n}, S("read"), S("half"), S("read"), S("close")}}))
	}
	// disconnect while the handler runs / while the response is produced
	for _, b := range []string{"slow", "slowi"} {
		l = append(l, one(srvConn{Steps: []srvStep{R(b), S("waith"), S("close"), S("settle"), S("release")}}))
		l = append(l, one(srvConn{Steps: []srvStep{R(b), S("waith"), S("half"), S("settle"), S("release"), S("read"), S("close")}}))
		l = append(l, one(srvConn{Steps: []srvStep{R(b), R("ok"), S("waith"), S("close"), S("release")}}))
	}
	// disconnect between send's load of tx and its select (hook 3), several attempts: the select is random
	for k := 0; k < 24; k++ {
		l = append(l, one(srvConn{Steps: []srvStep{S("park"), R("ok"), S("waitpark"), S("close"), {Op: "settle", Arg: 2 + k%3}, S("unpark")}}))
	}
	for k := 0; k < 6; k++ {
		l = append(l, one(srvConn{Steps: []srvStep{S("park"), R("ok"), S("waitpark"), S("half"), {Op: "settle", Arg: 2}, S("unpark"), S("read"), S("close")}}))
	}
	// disconnect while the response is being written: the peer never reads it
	for k := 0; k < 24; k++ {
		l = append(l, one(srvConn{Sync: true, Steps: []srvStep{R("ok"), {Op: "settle", Arg: 1 + k%4}, S("close")}}))
	}
	for k := 0; k < 4; k++ {
		l = append(l, one(srvConn{Sync: true, Steps: []srvStep{R("ok"), R("ok"), S("read"), {Op: "settle", Arg: 2}, S("close")}}))
		l = append(l, one(srvConn{Sync: true, Steps: []srvStep{R("ok"), S("read"), R("perr"), S("read"), S("close")}}))
	}
	// connect hook failure, TLS handshake
	l = append(l, one(srvConn{HookFail: true, Steps: []srvStep{R("ok"), S("read"), S("close")}}))
	l = append(l, one(srvConn{TLS: "fail", Steps: []srvStep{S("read"), S("close")}}))
	l = append(l, one(srvConn{TLS: "ok", Steps: []srvStep{R("ok"), S("read"), R("pstr"), S("read"), S("close")}}))
	l = append(l, one(srvConn{TLS: "ok", Steps: []srvStep{{Op: "enc", Arg: 0}, S("read"), S("read"), S("close")}}))
	// a peer that connects to the TLS server and stays silent (or sends a fragment of a record) while
	// other clients come and go: they are served all the same
	for _, mode := range []string{"silent", "silent3"} {
		l = append(l, srvScenario{NoProbe: true, Conns: []srvConn{
			{TLS: mode, Steps: []srvStep{{Op: "settle", Arg: 2500}, S("close")}},
			{TLS: "ok", Steps: []srvStep{{Op: "settle", Arg: 30}, R("ok"), S("read"), S("close")}},
			{TLS: "ok", Steps: []srvStep{{Op: "settle", Arg: 60}, R("ok"), R("perr"), S("read"), S("read"), S("close")}},
		}})
	}
	return l
}

// all scripts of length <= n over a small alphabet (each closed at the end)
func c08Exhaustive(n int) []srvScenario {
	alpha := []srvStep{
		{Op: "req", Items: []string{"ok"}},
		{Op: "req", Items: []string{"pstr", "typed:1"}},
		{Op: "enc", Arg: 0},
		{Op: "plain", Arg: 0},
		{Op: "resp"},
		{Op: "read"},
		{Op: "half"},
	}
	var l []srvScenario
	var rec func(prefix []srvStep, depth int)
	rec = func(prefix []srvStep, depth int) {
		if len(prefix) > 0 {
			steps := append(append([]srvStep{}, prefix...), srvStep{Op: "close"})
			l = append(l, srvScenario{Conns: []srvConn{{Steps: steps}}})
		}
		if depth == 0 {
			return
		}
		for _, a := range alpha {
			// nothing useful after a half-close except reads
			if len(prefix) > 0 && prefix[len(prefix)-1].Op == "half" && a.Op != "read" {
				continue
			}
			rec(append(prefix, a), depth-1)
		}
	}
	rec(nil, n)
	return l
}

func c08RandomConn(rng *h.Rand, maxLen int) srvConn {
	cs := srvConn{}
	if rng.Chance(1, 6) {
		cs.Sync = true
	}
	if rng.Chance(1, 25) {
		cs.HookFail = true
	}
	n := 1 + rng.Intn(maxLen)
	outstanding := 0
	slowPending := false
	for k := 0; k < n; k++ {
		switch x := rng.Intn(20); {
		case x < 9:
			ni := 1
			if rng.Chance(1, 3) {
				ni = 1 + rng.Intn(4)
			}
			items := make([]string, ni)
			for j := range items {
				items[j] = c08Behs[rng.Intn(len(c08Behs)-1)] // not slow
			}
			if !slowPending && rng.Chance(1, 8) {
				items[0] = "slow"
				if rng.Chance(1, 2) {
					items[0] = "slowi"
				}
				slowPending = true
				cs.Steps = append(cs.Steps, srvStep{Op: "req", Items: items}, srvStep{Op: "waith"})
				if rng.Chance(1, 2) {
					cs.Steps = append(cs.Steps, srvStep{Op: "release"})
					slowPending = false
				}
			} else {
				cs.Steps = append(cs.Steps, srvStep{Op: "req", Items: items})
			}
			outstanding++
		case x < 15:
			if cs.Sync && outstanding == 0 {
				continue
			}
			if slowPending {
				cs.Steps = append(cs.Steps, srvStep{Op: "release"})
				slowPending = false
			}
			cs.Steps = append(cs.Steps, srvStep{Op: "read"})
			if outstanding > 0 {
				outstanding--
			}
		case x < 16:
			cs.Steps = append(cs.Steps, srvStep{Op: "resp"})
		case x < 17:
			cs.Steps = append(cs.Steps, srvStep{Op: "enc", Arg: rng.Intn(srvEncVariants)})
			outstanding++
		case x < 18:
			cs.Steps = append(cs.Steps, srvStep{Op: "plain", Arg: rng.Intn(srvPlainVariants)})
			outstanding++
		case x < 19:
			cs.Steps = append(cs.Steps, srvStep{Op: "settle", Arg: 1})
		default:
			if slowPending {
				// a gated handler would keep every later read waiting
				cs.Steps = append(cs.Steps, srvStep{Op: "settle", Arg: 1}, srvStep{Op: "release"})
				slowPending = false
			}
			cs.Steps = append(cs.Steps, srvStep{Op: "half"})
			for outstanding > 0 && rng.Chance(2, 3) {
				cs.Steps = append(cs.Steps, srvStep{Op: "read"})
				outstanding--
			}
			k = n
		}
	}
	cs.Steps = append(cs.Steps, srvStep{Op: "close"})
	if slowPending {
		cs.Steps = append(cs.Steps, srvStep{Op: "settle", Arg: 1}, srvStep{Op: "release"})
	}
	return cs
}

func c08Nontrivial(sc srvScenario) bool {
	for _, cs := range sc.Conns {
		for _, st := range cs.Steps {
			switch st.Op {
			case "req", "enc", "plain", "part":
				return true
			}
		}
	}
	return false
}

func srvReplayScenario(c *h.Ctx) (srvScenario, bool) {
	m, ok := c.Replay["case"].(map[string]any)
	if !ok {
		return srvScenario{}, false
	}
	b, _ := json.Marshal(m["scenario"])
	var sc srvScenario
	if err := json.Unmarshal(b, &sc); err != nil {
		return srvScenario{}, false
	}
	return sc, true
}

func driveC08(c *h.Ctx) error {
	c.Rule("scenario = concurrent scripted raw connections against a real kmipserver.Server on an in-memory listener " +
		"(ops: request with per-item handler outcome {ok, slow, typed error, plain error, panic with typed error / error / runtime error / nil deref / string / Stringer / int, unrouted operation, critical extension}, " +
		"client-originated response, 4 undecodable-with-encoding-error variants incl. oversize, 2 undecodable-with-other-error variants, truncated message, read, half-close, close, " +
		"disconnect during handler, disconnect parked between send's tx load and select (hook), peer that never reads); " +
		"all scripts of length <= 3 over a 7-letter alphabet + targeted races + random scripts + many-connection scenarios; " +
		"non-trivial = at least one message sent; distinct by scenario JSON")
	var scs []srvScenario
	var httpRows []string
	httpCoq := func() string {
		defs, expr := h.Chunk("hrows", "hrow", httpRows, 200)
		return defs + fmt.Sprintf("Definition mism_http := Eval vm_compute in bad_idx hrow_ok %s 0.\nPrint mism_http.\n", expr)
	}
	if m, _ := c.Replay["case"].(map[string]any); c.Replay == nil || (m != nil && m["leg"] == "http") {
		httpRows = c08HTTP(c)
		if c.Replay != nil {
			return c.WriteCases("cases_C08.v", "From Coq Require Import ZArith List Bool.\nFrom KV Require Import HttpHandler Cases.\nImport ListNotations.\nOpen Scope Z_scope.\n"+httpCoq(), len(httpRows))
		}
	}
	if c.Replay != nil {
		sc, ok := srvReplayScenario(c)
		if !ok {
			return fmt.Errorf("replay file has no scenario")
		}
		// racy scenarios: repeat to give the Go scheduler a chance to take the failing schedule again
		for k := 0; k < 40; k++ {
			scs = append(scs, sc)
		}
	} else {
		scs = append(scs, c08Targeted()...)
		scs = append(scs, c08Exhaustive(3)...)
		nr := c.Pick(150, 3000)
		for i := 0; i < nr; i++ {
			rng := c.Rng.Fork(uint64(1000 + i))
			scs = append(scs, srvScenario{Conns: []srvConn{c08RandomConn(rng, 10)}})
		}
		nm := c.Pick(12, 200)
		for i := 0; i < nm; i++ {
			rng := c.Rng.Fork(uint64(900000 + i))
			nc := 2 + rng.Intn(c.Pick(14, 40))
			sc := srvScenario{}
			for k := 0; k < nc; k++ {
				sc.Conns = append(sc.Conns, c08RandomConn(rng.Fork(uint64(k)), 6))
			}
			scs = append(scs, sc)
		}
	}
	results := srvRunAll(scs, 14)
	var rows []string
	for i, sc := range scs {
		r := results[i]
		b, _ := json.Marshal(sc)
		caseJSON := map[string]any{"scenario": sc, "observed": r}
		c.Eval(string(b), c08Nontrivial(sc))
		c.CountN("connections", len(sc.Conns))
		for _, cs := range sc.Conns {
			for _, st := range cs.Steps {
				c.Count("op:" + st.Op)
				for _, it := range st.Items {
					c.Count("handler:" + strings.SplitN(it, ":", 2)[0])
				}
			}
			if cs.Sync {
				c.Count("conn:peer-not-reading")
			}
		}
		if i%97 == 0 {
			c.Sample(caseJSON)
		}
		c08Oracle(c, sc, r, caseJSON, "C08")
		if !r.Crashed && !r.Hang {
			for _, cr := range r.Conns {
				for _, o := range cr.Got {
					c.Count("obs:" + o.K)
				}
				if cr.Err != "" {
					c.Count("harness-sync-timeout")
				}
			}
		}
		if r.Hang {
			continue
		}
		for k, cs := range sc.Conns {
			if !r.Crashed && k >= len(r.Conns) {
				continue
			}
			rows = append(rows, fmt.Sprintf("(%s, %s)", srvScriptCoq(cs, false), srvOutcomeCoq(r, k)))
			c.IndexCase("mism_conn", len(rows)-1, map[string]any{"scenario": sc, "conn": k, "observed": r})
		}
	}
	var sb strings.Builder
	sb.WriteString("From Coq Require Import ZArith List Bool.\nFrom KV Require Import Lts ConnServer HttpHandler Cases.\nImport ListNotations.\nOpen Scope Z_scope.\n")
	defs, expr := h.Chunk("rows", "scn * option outcome", rows, 200)
	sb.WriteString(defs)
	fmt.Fprintf(&sb, "Definition mism_conn := Eval vm_compute in bad_idx (scn_row_ok cfg_repo 4000) %s 0.\nPrint mism_conn.\n", expr)
	if len(httpRows) > 0 {
		sb.WriteString(httpCoq())
	}
	return c.WriteCases("cases_C08.v", sb.String(), len(rows)+len(httpRows))
}
