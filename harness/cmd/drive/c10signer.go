package main

// C10 through the crypto.Signer the client hands out (kmipclient/sign_verify.go; oracle only): several
// goroutines sign different digests through ONE signer while the shared client is busy with a slow call
// of another goroutine; every Sign call returns the signature the server produced for ITS digest (the key
// server is the library's own kmipserver with scripted handlers, over an in-memory listener).

import (
	"context"
	"crypto"
	"crypto/ecdsa"
	"crypto/elliptic"
	"crypto/rand"
	"crypto/sha256"
	"crypto/x509"
	"fmt"
	"net"
	"sync"
	"time"

	"github.com/ovh/kmip-go"
	"github.com/ovh/kmip-go/kmipclient"
	"github.com/ovh/kmip-go/kmipserver"
	"github.com/ovh/kmip-go/payloads"

	"verifharness/internal/h"
	"verifharness/internal/memnet"
)

func c10SignerLeg(c *h.Ctx) {
	cj := map[string]any{"leg": "signer"}
	c.Current(cj)
	defer func() {
		if p := recover(); p != nil {
			c.Fail("C10/panic/signer", fmt.Sprint(p), cj)
		}
	}()
	priv, err := ecdsa.GenerateKey(elliptic.P256(), rand.Reader)
	if err != nil {
		return
	}
	holdEntered := make(chan struct{}, 4)
	holdRelease := make(chan struct{})
	var relOnce sync.Once
	release := func() { relOnce.Do(func() { close(holdRelease) }) }
	defer release()
	mux := kmipserver.NewBatchExecutor()
	mux.Route(kmip.OperationGetAttributes, kmipserver.HandleFunc(func(ctx context.Context, pl *payloads.GetAttributesRequestPayload) (*payloads.GetAttributesResponsePayload, error) {
		resp := &payloads.GetAttributesResponsePayload{UniqueIdentifier: pl.UniqueIdentifier}
		switch pl.UniqueIdentifier {
		case "priv":
			resp.Attribute = []kmip.Attribute{
				{AttributeName: kmip.AttributeNameObjectType, AttributeValue: kmip.ObjectTypePrivateKey},
				{AttributeName: kmip.AttributeNameCryptographicAlgorithm, AttributeValue: kmip.CryptographicAlgorithmEC},
				{AttributeName: kmip.AttributeNameLink, AttributeValue: kmip.Link{LinkType: kmip.LinkTypePublicKeyLink, LinkedObjectIdentifier: "pub"}},
				{AttributeName: kmip.AttributeNameCryptographicUsageMask, AttributeValue: kmip.CryptographicUsageSign},
			}
		case "pub":
			resp.Attribute = []kmip.Attribute{
				{AttributeName: kmip.AttributeNameObjectType, AttributeValue: kmip.ObjectTypePublicKey},
				{AttributeName: kmip.AttributeNameCryptographicAlgorithm, AttributeValue: kmip.CryptographicAlgorithmEC},
				{AttributeName: kmip.AttributeNameLink, AttributeValue: kmip.Link{LinkType: kmip.LinkTypePrivateKeyLink, LinkedObjectIdentifier: "priv"}},
				{AttributeName: kmip.AttributeNameCryptographicUsageMask, AttributeValue: kmip.CryptographicUsageVerify},
			}
		default:
			return nil, kmipserver.ErrItemNotFound
		}
		return resp, nil
	}))
	mux.Route(kmip.OperationGet, kmipserver.HandleFunc(func(ctx context.Context, pl *payloads.GetRequestPayload) (*payloads.GetResponsePayload, error) {
		if pl.UniqueIdentifier != "pub" {
			return nil, kmipserver.ErrPermissionDenied
		}
		pkix, _ := x509.MarshalPKIXPublicKey(priv.Public())
		return &payloads.GetResponsePayload{ObjectType: kmip.ObjectTypePublicKey, UniqueIdentifier: "pub",
			Object: &kmip.PublicKey{KeyBlock: kmip.KeyBlock{KeyFormatType: kmip.KeyFormatTypeX_509, CryptographicAlgorithm: kmip.CryptographicAlgorithmEC, CryptographicLength: 256,
				KeyValue: &kmip.KeyValue{Plain: &kmip.PlainKeyValue{KeyMaterial: kmip.KeyMaterial{Bytes: &pkix}}}}}}, nil
	}))
	mux.Route(kmip.OperationSign, kmipserver.HandleFunc(func(ctx context.Context, pl *payloads.SignRequestPayload) (*payloads.SignResponsePayload, error) {
		sig, err := ecdsa.SignASN1(rand.Reader, priv, pl.DigestedData)
		if err != nil {
			return nil, err
		}
		return &payloads.SignResponsePayload{UniqueIdentifier: pl.UniqueIdentifier, SignatureData: sig}, nil
	}))
	mux.Route(kmip.OperationActivate, kmipserver.HandleFunc(func(ctx context.Context, pl *payloads.ActivateRequestPayload) (*payloads.ActivateResponsePayload, error) {
		holdEntered <- struct{}{}
		select {
		case <-holdRelease:
		case <-time.After(5 * time.Second):
		}
		return &payloads.ActivateResponsePayload{UniqueIdentifier: pl.UniqueIdentifier}, nil
	}))
	ln := memnet.NewListener()
	srv := kmipserver.NewServer(ln, mux)
	go func() { _ = srv.Serve() }()
	defer func() { release(); _ = srv.Shutdown() }()
	// the middleware only observes: it tells when a Sign call has built its request and is about to queue behind the busy client
	signQueued := make(chan struct{}, 8)
	observe := func(next kmipclient.Next, ctx context.Context, msg *kmip.RequestMessage) (*kmip.ResponseMessage, error) {
		if len(msg.BatchItem) == 1 && msg.BatchItem[0].Operation == kmip.OperationSign {
			signQueued <- struct{}{}
		}
		return next(ctx, msg)
	}
	dialer := func(ctx context.Context) (net.Conn, error) { return ln.Dial(1<<20, 1<<20) }
	client, err := kmipclient.Dial("mem", kmipclient.WithDialerUnsafe(dialer), kmipclient.EnforceVersion(kmip.V1_4), kmipclient.WithMiddlewares(observe))
	if err != nil {
		return
	}
	defer client.Close()
	sctx, scancel := context.WithTimeout(context.Background(), 10*time.Second)
	defer scancel()
	signer, err := client.Signer(sctx, "priv", "pub")
	if err != nil {
		c.Extra("signer_leg_skipped", err.Error())
		return
	}
	pub, _ := signer.Public().(*ecdsa.PublicKey)
	if pub == nil {
		return
	}
	c.Eval("signer", true)
	c.Count("leg:signer")
	holdDone := make(chan struct{})
	go func() {
		defer close(holdDone)
		defer func() { _ = recover() }()
		_, _ = client.Activate("hold").Exec()
	}()
	select {
	case <-holdEntered:
	case <-time.After(5 * time.Second):
		return
	}
	const n = 3
	type result struct {
		sig []byte
		err error
	}
	digests := make([][32]byte, n)
	res := make([]chan result, n)
	for i := 0; i < n; i++ {
		digests[i] = sha256.Sum256([]byte(fmt.Sprintf("message of goroutine %d", i)))
		ch := make(chan result, 1)
		res[i] = ch
		go func(d []byte) {
			defer func() {
				if p := recover(); p != nil {
					ch <- result{nil, fmt.Errorf("panic: %v", p)}
				}
			}()
			sig, err := signer.Sign(rand.Reader, d, crypto.SHA256)
			ch <- result{sig, err}
		}(digests[i][:])
		select {
		case <-signQueued:
		case <-time.After(5 * time.Second):
		}
	}
	release()
	<-holdDone
	for i := 0; i < n; i++ {
		var r result
		select {
		case r = <-res[i]:
		case <-time.After(10 * time.Second):
			c.Fail("C10/hang/signer", fmt.Sprintf("Sign call %d did not return", i), cj)
			return
		}
		if r.err != nil {
			continue // an error is acceptable
		}
		if !ecdsa.VerifyASN1(pub, digests[i][:], r.sig) {
			other := -1
			for k := 0; k < n; k++ {
				if k != i && ecdsa.VerifyASN1(pub, digests[k][:], r.sig) {
					other = k
				}
			}
			c.Fail("C10/wrong-response/signer", fmt.Sprintf("the signature returned to Sign call %d (one crypto.Signer shared by %d goroutines, the client busy with a slow call) does not verify for its digest; it verifies for the digest of call %d", i, n, other), cj)
			return
		}
	}
}
