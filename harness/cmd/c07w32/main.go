// Command c07w32 is the 32-bit leg of the C07 check. The C07 driver cross-compiles it with
// GOARCH=386 (same kernel, no emulation needed on amd64) and feeds it cases on stdin, so that
// ttlv.Stream.Recv is also observed where Go's int has 32 bits (the W = 32 instance of the model).
// It is not built by the check script itself; when it cannot be built or run the driver records
// that the 32-bit leg was skipped.
package main

import (
	"encoding/hex"
	"encoding/json"
	"errors"
	"fmt"
	"io"
	"os"
	"strconv"

	"github.com/ovh/kmip-go/ttlv"
)

type w32case struct {
	Max    int    `json:"max"`
	Data   string `json:"data"`
	K      int    `json:"k"`      // every Read delivers at most K bytes
	Attach bool   `json:"attach"` // io.EOF together with the last bytes
}

type w32obs struct {
	Class   int      `json:"class"` // as in the driver: 0 message, 1 library error, 2 transport error, 4 unexpected EOF, 5 panic
	Code    int      `json:"code"`
	Payload string   `json:"payload"`
	Trace   [][2]int `json:"trace"`
	Rest    int      `json:"rest"`
	Panic   string   `json:"panic,omitempty"`
}

// the transport: schedule "Chunk K Attach" for ever (Stream.v tr_read)
type chunkReader struct {
	rest   []byte
	k      int
	attach bool
	trace  [][2]int
}

func (r *chunkReader) Read(p []byte) (int, error) {
	if len(r.rest) == 0 {
		r.trace = append(r.trace, [2]int{len(p), 0})
		return 0, io.EOF
	}
	n := r.k
	if len(p) < n {
		n = len(p)
	}
	if len(r.rest) < n {
		n = len(r.rest)
	}
	if n < 0 {
		n = 0
	}
	var err error
	if r.attach && n == len(r.rest) {
		err = io.EOF
	}
	copy(p, r.rest[:n])
	r.rest = r.rest[n:]
	r.trace = append(r.trace, [2]int{len(p), n})
	return n, err
}
func (r *chunkReader) Write(b []byte) (int, error) { return len(b), nil }
func (r *chunkReader) Close() error                { return nil }

func recvOnce(st *ttlv.Stream, r *chunkReader) (o w32obs) {
	r.trace = nil
	var v ttlv.Value
	var err error
	func() {
		defer func() {
			if p := recover(); p != nil {
				o.Panic = fmt.Sprint(p)
			}
		}()
		err = st.Recv(&v)
	}()
	o.Trace = r.trace
	if o.Trace == nil {
		o.Trace = [][2]int{}
	}
	o.Rest = len(r.rest)
	switch {
	case o.Panic != "":
		o.Class = 5
	case err == nil:
		func() {
			defer func() {
				if p := recover(); p != nil {
					o.Payload = hex.EncodeToString([]byte("unmarshalable:" + fmt.Sprint(p)))
				}
			}()
			o.Payload = hex.EncodeToString(ttlv.MarshalTTLV(v))
		}()
	case errors.Is(err, io.ErrUnexpectedEOF):
		o.Class = 4
	case err == io.EOF:
		o.Class = 2
	default:
		o.Class = 1
	}
	return o
}

func main() {
	if strconv.IntSize != 32 {
		fmt.Fprintln(os.Stderr, "c07w32: built for a", strconv.IntSize, "bit int; build with GOARCH=386")
		os.Exit(2)
	}
	var cases []w32case
	if err := json.NewDecoder(os.Stdin).Decode(&cases); err != nil {
		fmt.Fprintln(os.Stderr, "c07w32:", err)
		os.Exit(2)
	}
	out := make([][]w32obs, len(cases))
	for i, cs := range cases {
		data, err := hex.DecodeString(cs.Data)
		if err != nil {
			fmt.Fprintln(os.Stderr, "c07w32:", err)
			os.Exit(2)
		}
		r := &chunkReader{rest: data, k: cs.K, attach: cs.Attach}
		st := ttlv.NewStream(r, cs.Max)
		for n := 0; n < 8; n++ {
			o := recvOnce(&st, r)
			out[i] = append(out[i], o)
			if o.Class != 0 && o.Class != 1 {
				break
			}
		}
	}
	if err := json.NewEncoder(os.Stdout).Encode(out); err != nil {
		fmt.Fprintln(os.Stderr, "c07w32:", err)
		os.Exit(2)
	}
}
