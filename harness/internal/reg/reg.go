// Package reg holds the snapshot of the library's name registry shared by the
// translator (cmd/dump: coq/gen/Registry.v) and the C17 driver (comparison with the
// committed coq/theories/PinnedRegistry.v).
//
// The snapshot is taken from the LIVE maps of package ttlv (through the verif-tagged
// exports), forward and reverse maps independently, and printed sorted, so that the
// generated file depends only on the maps' content, never on map iteration order.
package reg

import (
	"fmt"
	"reflect"
	"regexp"
	"sort"
	"strconv"
	"strings"

	_ "github.com/ovh/kmip-go" // the root package registers tags, enumerations and bit masks in its init()
	"github.com/ovh/kmip-go/ttlv"
)

type NumName struct {
	Num  int64
	Name string
}

type NameNum struct {
	Name string
	Num  int64
}

type EnumFwd struct {
	Tag     int64
	Entries []NumName
}

type EnumRev struct {
	Tag     int64
	Entries []NameNum
}

type MaskFwd struct {
	Tag   int64
	Names []string
}

// Snapshot is the registry as plain sorted data.
type Snapshot struct {
	TagNames      []NumName // ttlv.tagNames
	TagByName     []NameNum // ttlv.tagByName
	EnumNames     []EnumFwd // ttlv.enumNames
	EnumsByName   []EnumRev // ttlv.enumsByName
	BitmaskNames  []MaskFwd // ttlv.bitmaskNames (vector, bit i = index i)
	BitmaskByName []EnumRev // ttlv.bitmaskByName
	TypeNames     []NumName // ttlv.typesName
	NameTypes     []NameNum // ttlv.nameTypes
	EnumTypes     []NameNum // side table: Go type name -> tag in ttlv.enums
	BitmaskTypes  []NameNum // side table: Go type name -> tag in ttlv.bitmasks
}

func sortNN(l []NumName) {
	sort.Slice(l, func(i, j int) bool {
		if l[i].Num != l[j].Num {
			return l[i].Num < l[j].Num
		}
		return l[i].Name < l[j].Name
	})
}

func sortNa(l []NameNum) {
	sort.Slice(l, func(i, j int) bool {
		if l[i].Name != l[j].Name {
			return l[i].Name < l[j].Name
		}
		return l[i].Num < l[j].Num
	})
}

// EnumGoTypes / BitmaskGoTypes give the live reflect.Types (for the driver).
func EnumGoTypes() map[reflect.Type]int    { return ttlv.VerifEnumTypes() }
func BitmaskGoTypes() map[reflect.Type]int { return ttlv.VerifBitmaskTypes() }

// FromLive copies the live registry maps.
func FromLive() *Snapshot {
	r := ttlv.VerifRegistryDump()
	s := &Snapshot{}
	for k, v := range r.TagNames {
		s.TagNames = append(s.TagNames, NumName{int64(k), v})
	}
	sortNN(s.TagNames)
	for k, v := range r.TagByName {
		s.TagByName = append(s.TagByName, NameNum{k, int64(v)})
	}
	sortNa(s.TagByName)
	for t, m := range r.EnumNames {
		e := EnumFwd{Tag: int64(t)}
		for k, v := range m {
			e.Entries = append(e.Entries, NumName{int64(k), v})
		}
		sortNN(e.Entries)
		s.EnumNames = append(s.EnumNames, e)
	}
	sort.Slice(s.EnumNames, func(i, j int) bool { return s.EnumNames[i].Tag < s.EnumNames[j].Tag })
	for t, m := range r.EnumsByName {
		e := EnumRev{Tag: int64(t)}
		for k, v := range m {
			e.Entries = append(e.Entries, NameNum{k, int64(v)})
		}
		sortNa(e.Entries)
		s.EnumsByName = append(s.EnumsByName, e)
	}
	sort.Slice(s.EnumsByName, func(i, j int) bool { return s.EnumsByName[i].Tag < s.EnumsByName[j].Tag })
	for t, l := range r.BitmaskNames {
		s.BitmaskNames = append(s.BitmaskNames, MaskFwd{Tag: int64(t), Names: append([]string(nil), l...)})
	}
	sort.Slice(s.BitmaskNames, func(i, j int) bool { return s.BitmaskNames[i].Tag < s.BitmaskNames[j].Tag })
	for t, m := range r.BitmaskByName {
		e := EnumRev{Tag: int64(t)}
		for k, v := range m {
			e.Entries = append(e.Entries, NameNum{k, int64(v)})
		}
		sortNa(e.Entries)
		s.BitmaskByName = append(s.BitmaskByName, e)
	}
	sort.Slice(s.BitmaskByName, func(i, j int) bool { return s.BitmaskByName[i].Tag < s.BitmaskByName[j].Tag })
	for k, v := range r.TypeNames {
		s.TypeNames = append(s.TypeNames, NumName{int64(k), v})
	}
	sortNN(s.TypeNames)
	for k, v := range r.NameTypes {
		s.NameTypes = append(s.NameTypes, NameNum{k, int64(v)})
	}
	sortNa(s.NameTypes)
	for ty, tag := range ttlv.VerifEnumTypes() {
		s.EnumTypes = append(s.EnumTypes, NameNum{ty.String(), int64(tag)})
	}
	sortNa(s.EnumTypes)
	for ty, tag := range ttlv.VerifBitmaskTypes() {
		s.BitmaskTypes = append(s.BitmaskTypes, NameNum{ty.String(), int64(tag)})
	}
	sortNa(s.BitmaskTypes)
	return s
}

// ---------------------------------------------------------------- Coq printing

// CoqString prints a Go string as a Coq string literal. Inside a Coq literal only the
// double quote is special (doubled); every other byte stands for itself.
func CoqString(s string) string { return `"` + strings.ReplaceAll(s, `"`, `""`) + `"` }

func coqZ(n int64) string {
	if n < 0 {
		return fmt.Sprintf("(%d)", n)
	}
	return fmt.Sprintf("%d", n)
}

func nnList(l []NumName, indent string) string {
	if len(l) == 0 {
		return "[]"
	}
	var sb strings.Builder
	sb.WriteString("[\n")
	for i, e := range l {
		sep := ";"
		if i == len(l)-1 {
			sep = ""
		}
		fmt.Fprintf(&sb, "%s(%s, %s)%s\n", indent, coqZ(e.Num), CoqString(e.Name), sep)
	}
	sb.WriteString(indent[:len(indent)-2] + "]")
	return sb.String()
}

func naList(l []NameNum, indent string) string {
	if len(l) == 0 {
		return "[]"
	}
	var sb strings.Builder
	sb.WriteString("[\n")
	for i, e := range l {
		sep := ";"
		if i == len(l)-1 {
			sep = ""
		}
		fmt.Fprintf(&sb, "%s(%s, %s)%s\n", indent, CoqString(e.Name), coqZ(e.Num), sep)
	}
	sb.WriteString(indent[:len(indent)-2] + "]")
	return sb.String()
}

// Coq prints the snapshot as a self-contained Gallina file; every definition name
// gets the given prefix ("" for gen/Registry.v, "pinned_" for PinnedRegistry.v).
// The layout is line oriented (one entry per line) so that ParseCoq can read it back.
func (s *Snapshot) Coq(prefix, header string) string {
	var sb strings.Builder
	sb.WriteString(header)
	sb.WriteString("From Coq Require Import ZArith List String.\nImport ListNotations.\nOpen Scope Z_scope.\nOpen Scope string_scope.\n\n")
	fmt.Fprintf(&sb, "(* ttlv.tagNames : %d entries *)\nDefinition %stag_names : list (Z * string) := %s.\n\n", len(s.TagNames), prefix, nnList(s.TagNames, "  "))
	fmt.Fprintf(&sb, "(* ttlv.tagByName : %d entries *)\nDefinition %stag_by_name : list (string * Z) := %s.\n\n", len(s.TagByName), prefix, naList(s.TagByName, "  "))
	fmt.Fprintf(&sb, "(* ttlv.enumNames : %d enumerations *)\nDefinition %senum_names : list (Z * list (Z * string)) := [\n", len(s.EnumNames), prefix)
	for i, e := range s.EnumNames {
		sep := ";"
		if i == len(s.EnumNames)-1 {
			sep = ""
		}
		fmt.Fprintf(&sb, "  (%s, %s)%s\n", coqZ(e.Tag), nnList(e.Entries, "    "), sep)
	}
	sb.WriteString("].\n\n")
	fmt.Fprintf(&sb, "(* ttlv.enumsByName : %d enumerations *)\nDefinition %senums_by_name : list (Z * list (string * Z)) := [\n", len(s.EnumsByName), prefix)
	for i, e := range s.EnumsByName {
		sep := ";"
		if i == len(s.EnumsByName)-1 {
			sep = ""
		}
		fmt.Fprintf(&sb, "  (%s, %s)%s\n", coqZ(e.Tag), naList(e.Entries, "    "), sep)
	}
	sb.WriteString("].\n\n")
	fmt.Fprintf(&sb, "(* ttlv.bitmaskNames : %d bit masks; the i-th name is bit i *)\nDefinition %sbitmask_names : list (Z * list string) := [\n", len(s.BitmaskNames), prefix)
	for i, e := range s.BitmaskNames {
		sep := ";"
		if i == len(s.BitmaskNames)-1 {
			sep = ""
		}
		var names []string
		for _, n := range e.Names {
			names = append(names, "    "+CoqString(n))
		}
		body := "[]"
		if len(names) > 0 {
			body = "[\n" + strings.Join(names, ";\n") + "\n  ]"
		}
		fmt.Fprintf(&sb, "  (%s, %s)%s\n", coqZ(e.Tag), body, sep)
	}
	sb.WriteString("].\n\n")
	fmt.Fprintf(&sb, "(* ttlv.bitmaskByName *)\nDefinition %sbitmask_by_name : list (Z * list (string * Z)) := [\n", prefix)
	for i, e := range s.BitmaskByName {
		sep := ";"
		if i == len(s.BitmaskByName)-1 {
			sep = ""
		}
		fmt.Fprintf(&sb, "  (%s, %s)%s\n", coqZ(e.Tag), naList(e.Entries, "    "), sep)
	}
	sb.WriteString("].\n\n")
	fmt.Fprintf(&sb, "(* ttlv.typesName / ttlv.nameTypes *)\nDefinition %stype_names : list (Z * string) := %s.\n\n", prefix, nnList(s.TypeNames, "  "))
	fmt.Fprintf(&sb, "Definition %sname_types : list (string * Z) := %s.\n\n", prefix, naList(s.NameTypes, "  "))
	fmt.Fprintf(&sb, "(* side tables: Go type -> tag under which the type is registered (ttlv.enums, ttlv.bitmasks) *)\nDefinition %senum_types : list (string * Z) := %s.\n\n", prefix, naList(s.EnumTypes, "  "))
	fmt.Fprintf(&sb, "Definition %sbitmask_types : list (string * Z) := %s.\n", prefix, naList(s.BitmaskTypes, "  "))
	return sb.String()
}

// ---------------------------------------------------------------- reading a printed snapshot back

var (
	reDef  = regexp.MustCompile(`^Definition (\w+) :`)
	reNN   = regexp.MustCompile(`^\s*\(\(?(-?\d+)\)?, "((?:[^"]|"")*)"\);?\s*$`)
	reNa   = regexp.MustCompile(`^\s*\("((?:[^"]|"")*)", \(?(-?\d+)\)?\);?\s*$`)
	reGrp  = regexp.MustCompile(`^  \(\(?(-?\d+)\)?, \[(\]\);?)?\s*$`)
	reName = regexp.MustCompile(`^\s*"((?:[^"]|"")*)";?\s*$`)
)

func unq(s string) string { return strings.ReplaceAll(s, `""`, `"`) }

// ParseCoq reads a file printed by Coq(prefix, ...) back. Names must not contain
// newlines (true for every file this package is used on; the printer is total anyway).
func ParseCoq(text, prefix string) (*Snapshot, error) {
	s := &Snapshot{}
	cur := ""
	var grpTag int64
	inGrp := false
	for ln, line := range strings.Split(text, "\n") {
		if m := reDef.FindStringSubmatch(line); m != nil {
			cur = strings.TrimPrefix(m[1], prefix)
			inGrp = false
			continue
		}
		if cur == "" {
			continue
		}
		nested := cur == "enum_names" || cur == "enums_by_name" || cur == "bitmask_names" || cur == "bitmask_by_name"
		if nested {
			if m := reGrp.FindStringSubmatch(line); m != nil {
				grpTag, _ = strconv.ParseInt(m[1], 10, 64)
				inGrp = m[2] == ""
				switch cur {
				case "enum_names":
					s.EnumNames = append(s.EnumNames, EnumFwd{Tag: grpTag})
				case "enums_by_name":
					s.EnumsByName = append(s.EnumsByName, EnumRev{Tag: grpTag})
				case "bitmask_names":
					s.BitmaskNames = append(s.BitmaskNames, MaskFwd{Tag: grpTag})
				case "bitmask_by_name":
					s.BitmaskByName = append(s.BitmaskByName, EnumRev{Tag: grpTag})
				}
				continue
			}
			if !inGrp {
				continue
			}
		}
		switch cur {
		case "tag_names", "type_names":
			if m := reNN.FindStringSubmatch(line); m != nil {
				n, _ := strconv.ParseInt(m[1], 10, 64)
				e := NumName{n, unq(m[2])}
				if cur == "tag_names" {
					s.TagNames = append(s.TagNames, e)
				} else {
					s.TypeNames = append(s.TypeNames, e)
				}
			}
		case "tag_by_name", "name_types", "enum_types", "bitmask_types":
			if m := reNa.FindStringSubmatch(line); m != nil {
				n, _ := strconv.ParseInt(m[2], 10, 64)
				e := NameNum{unq(m[1]), n}
				switch cur {
				case "tag_by_name":
					s.TagByName = append(s.TagByName, e)
				case "name_types":
					s.NameTypes = append(s.NameTypes, e)
				case "enum_types":
					s.EnumTypes = append(s.EnumTypes, e)
				case "bitmask_types":
					s.BitmaskTypes = append(s.BitmaskTypes, e)
				}
			}
		case "enum_names":
			if m := reNN.FindStringSubmatch(line); m != nil {
				n, _ := strconv.ParseInt(m[1], 10, 64)
				g := &s.EnumNames[len(s.EnumNames)-1]
				g.Entries = append(g.Entries, NumName{n, unq(m[2])})
			}
		case "enums_by_name", "bitmask_by_name":
			if m := reNa.FindStringSubmatch(line); m != nil {
				n, _ := strconv.ParseInt(m[2], 10, 64)
				var g *EnumRev
				if cur == "enums_by_name" {
					g = &s.EnumsByName[len(s.EnumsByName)-1]
				} else {
					g = &s.BitmaskByName[len(s.BitmaskByName)-1]
				}
				g.Entries = append(g.Entries, NameNum{unq(m[1]), n})
			}
		case "bitmask_names":
			if m := reName.FindStringSubmatch(line); m != nil {
				g := &s.BitmaskNames[len(s.BitmaskNames)-1]
				g.Names = append(g.Names, unq(m[1]))
			}
		}
		_ = ln
	}
	if len(s.TagNames) == 0 && len(s.EnumNames) == 0 {
		return nil, fmt.Errorf("no registry definitions with prefix %q found", prefix)
	}
	return s, nil
}
