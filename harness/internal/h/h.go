// Package h is the shared plumbing of the correspondence/oracle drivers.
package h

import (
	"crypto/sha256"
	"encoding/hex"
	"encoding/json"
	"fmt"
	"math/big"
	"os"
	"path/filepath"
	"sort"
	"strings"
)

// Rand is splitmix64: every random choice of a run derives from VERIF_SEED.
type Rand struct{ s uint64 }

func NewRand(seed uint64) *Rand { return &Rand{s: seed*0x9E3779B97F4A7C15 + 0x1234567} }

func (r *Rand) U64() uint64 {
	r.s += 0x9E3779B97F4A7C15
	z := r.s
	z = (z ^ (z >> 30)) * 0xBF58476D1CE4E5B9
	z = (z ^ (z >> 27)) * 0x94D049BB133111EB
	return z ^ (z >> 31)
}

// Intn returns a value in [0,n).
func (r *Rand) Intn(n int) int {
	if n <= 0 {
		return 0
	}
	return int(r.U64() % uint64(n))
}

func (r *Rand) Bool() bool { return r.U64()&1 == 1 }

// Chance returns true with probability num/den.
func (r *Rand) Chance(num, den int) bool { return r.Intn(den) < num }

func (r *Rand) Bytes(n int) []byte {
	b := make([]byte, n)
	for i := range b {
		b[i] = byte(r.U64())
	}
	return b
}

// Fork derives an independent generator (stable under reordering of other draws).
func (r *Rand) Fork(label uint64) *Rand { return NewRand(r.s ^ (label * 0xD6E8FEB86659FD93)) }

// Failure is a direct violation of the property observed on the implementation.
type Failure struct {
	Sig  string `json:"sig"`  // signature of the specific input class / call site (matched against known_findings.json)
	Desc string `json:"desc"` // human readable
	Case any    `json:"case"` // the concrete failing input / history (replayable)
}

// Ctx is handed to each property driver.
type Ctx struct {
	Prop    string
	Tier    string
	Seed    uint64
	Out     string
	Replay  map[string]any // non-nil in replay mode: the replay file
	Rng     *Rand
	Verif   string
	Repo    string
	res     result
	seen    map[string]bool
	dist    map[string]int
	maxFail int
	recent  []any
}

type result struct {
	Evaluations int                       `json:"evaluations"`
	Distinct    int                       `json:"distinct_nontrivial"`
	Rule        string                    `json:"rule"`
	Samples     []any                     `json:"samples"`
	Dist        map[string]int            `json:"distribution"`
	Failures    []Failure                 `json:"failures"`
	CasesFiles  []string                  `json:"cases_files"`
	ModelCases  int                       `json:"model_cases"`
	CaseIndex   map[string]map[string]any `json:"case_index"`
	Exhaustive  bool                      `json:"exhaustive"`
	Extra       map[string]any            `json:"extra"`
}

func (c *Ctx) Quick() bool { return c.Tier != "thorough" }

// Pick returns q in quick tier and t in thorough tier.
func (c *Ctx) Pick(q, t int) int {
	if c.Quick() {
		return q
	}
	return t
}

func (c *Ctx) Rule(s string)          { c.res.Rule = s }
func (c *Ctx) Exhaustive(b bool)      { c.res.Exhaustive = b }
func (c *Ctx) Extra(k string, v any)  { c.res.Extra[k] = v }
func (c *Ctx) Count(k string)         { c.dist[k]++ }
func (c *Ctx) CountN(k string, n int) { c.dist[k] += n }

// Eval records one evaluated case; key is the canonical form of the case used to
// count distinct cases; nontrivial says whether the case is non-trivial by the rule.
func (c *Ctx) Eval(key string, nontrivial bool) {
	c.res.Evaluations++
	if !nontrivial {
		return
	}
	hsh := sha256.Sum256([]byte(key))
	k := string(hsh[:12])
	if !c.seen[k] {
		c.seen[k] = true
		c.res.Distinct++
	}
}

func (c *Ctx) Sample(v any) {
	if len(c.res.Samples) < 8 {
		c.res.Samples = append(c.res.Samples, v)
	}
}

// Fail records an oracle failure. Only the first few per signature keep their case.
func (c *Ctx) Fail(sig, desc string, cas any) {
	n := 0
	for _, f := range c.res.Failures {
		if f.Sig == sig {
			n++
		}
	}
	if n >= 3 {
		return
	}
	c.res.Failures = append(c.res.Failures, Failure{Sig: sig, Desc: desc, Case: cas})
}

func (c *Ctx) NumFailures() int { return len(c.res.Failures) }

// WriteCases writes a Coq file evaluated by the check script (coqc + vm_compute).
// ncases is the number of model evaluations it performs.
func (c *Ctx) WriteCases(name, content string, ncases int) error {
	if err := os.WriteFile(filepath.Join(c.Out, name), []byte(content), 0o644); err != nil {
		return err
	}
	c.res.CasesFiles = append(c.res.CasesFiles, name)
	c.res.ModelCases += ncases
	return nil
}

// IndexCase remembers the concrete case behind index i of mismatch table `table`.
func (c *Ctx) IndexCase(table string, i int, cas any) {
	if c.res.CaseIndex[table] == nil {
		c.res.CaseIndex[table] = map[string]any{}
	}
	c.res.CaseIndex[table][fmt.Sprint(i)] = cas
}

// Current records the case the implementation is about to be run on (with the two before it): should
// the process die there (an unrecovered panic or a fatal runtime error in a goroutine of the library),
// the check reports that case as the failing input instead of "no failing input found".
func (c *Ctx) Current(cas any) {
	c.recent = append(c.recent, cas)
	if len(c.recent) > 3 {
		c.recent = c.recent[len(c.recent)-3:]
	}
	m := map[string]any{"case": cas}
	if n := len(c.recent); n > 1 {
		m["previous"] = c.recent[:n-1]
	}
	b, err := json.Marshal(m)
	if err != nil {
		return
	}
	tmp := filepath.Join(c.Out, "current_case.json.tmp")
	if os.WriteFile(tmp, b, 0o644) == nil {
		_ = os.Rename(tmp, filepath.Join(c.Out, "current_case.json"))
	}
}

func (c *Ctx) finish() error {
	_ = os.Remove(filepath.Join(c.Out, "current_case.json"))
	c.res.Dist = c.dist
	if c.res.Samples == nil {
		c.res.Samples = []any{}
	}
	if c.res.Failures == nil {
		c.res.Failures = []Failure{}
	}
	b, err := json.MarshalIndent(c.res, "", " ")
	if err != nil {
		return err
	}
	return os.WriteFile(filepath.Join(c.Out, "result.json"), b, 0o644)
}

var drivers = map[string]func(*Ctx) error{}

func Register(prop string, f func(*Ctx) error) { drivers[prop] = f }

func Props() []string {
	var l []string
	for k := range drivers {
		l = append(l, k)
	}
	sort.Strings(l)
	return l
}

// Main is the entry of cmd/drive.
func Main(args []string) int {
	if len(args) < 1 {
		fmt.Fprintln(os.Stderr, "usage: drive <Cxx> --tier T --seed S --out DIR [--replay FILE]; known:", Props())
		return 2
	}
	c := &Ctx{Prop: args[0], Tier: "quick", Seed: 1, Out: ".", seen: map[string]bool{}, dist: map[string]int{}}
	c.res.Extra = map[string]any{}
	c.res.CaseIndex = map[string]map[string]any{}
	for i := 1; i < len(args); i++ {
		switch args[i] {
		case "--tier":
			i++
			c.Tier = args[i]
		case "--seed":
			i++
			fmt.Sscan(args[i], &c.Seed)
		case "--out":
			i++
			c.Out = args[i]
		case "--replay":
			i++
			b, err := os.ReadFile(args[i])
			if err != nil {
				fmt.Fprintln(os.Stderr, err)
				return 2
			}
			if err := json.Unmarshal(b, &c.Replay); err != nil {
				fmt.Fprintln(os.Stderr, err)
				return 2
			}
		}
	}
	c.Verif = os.Getenv("VERIF_DIR")
	if c.Verif == "" {
		c.Verif = "/verif"
	}
	c.Repo = os.Getenv("VERIF_REPO")
	if c.Repo == "" {
		c.Repo = "/repo"
	}
	c.Rng = NewRand(c.Seed)
	f, ok := drivers[c.Prop]
	if !ok {
		fmt.Fprintln(os.Stderr, "unknown property", c.Prop, "known:", Props())
		return 2
	}
	if err := f(c); err != nil {
		fmt.Fprintln(os.Stderr, "driver error:", err)
		return 3
	}
	if err := c.finish(); err != nil {
		fmt.Fprintln(os.Stderr, err)
		return 3
	}
	fmt.Printf("drive %s: %d evaluations, %d distinct non-trivial, %d oracle failures\n", c.Prop, c.res.Evaluations, c.res.Distinct, len(c.res.Failures))
	return 0
}

// ---------------------------------------------------------------- Coq term printers

// Z prints an integer as a Coq Z literal (parenthesised when negative).
func Z(n int64) string {
	if n < 0 {
		return fmt.Sprintf("(%d)", n)
	}
	return fmt.Sprintf("%d", n)
}

func Bool(b bool) string {
	if b {
		return "true"
	}
	return "false"
}

// List prints a Coq list from already printed elements.
func List(el []string) string {
	if len(el) == 0 {
		return "[]"
	}
	return "[" + strings.Join(el, "; ") + "]"
}

func ZList(l []int64) string {
	s := make([]string, len(l))
	for i, v := range l {
		s[i] = Z(v)
	}
	return List(s)
}

// Bytes prints a byte string as a Coq list of Z.
func Bytes(b []byte) string {
	s := make([]string, len(b))
	for i, v := range b {
		s[i] = fmt.Sprintf("%d", v)
	}
	return List(s)
}

// HexBytes prints a byte string as the dense literal (ub n [..]%uint63) of Cases.v:
// primitive 63-bit integers carrying 7 bytes each (parsed ~10x faster than lists of Z).
func HexBytes(b []byte) string {
	if len(b) == 0 {
		return "(ub 0 [])"
	}
	if len(b) <= 2 {
		return Bytes(b)
	}
	var sb strings.Builder
	fmt.Fprintf(&sb, "(ub %d [", len(b))
	for i := 0; i < len(b); i += 7 {
		j := i + 7
		if j > len(b) {
			j = len(b)
		}
		if i > 0 {
			sb.WriteString("; ")
		}
		sb.WriteString("0x")
		sb.WriteString(hex.EncodeToString(b[i:j]))
	}
	sb.WriteString("]%uint63)")
	return sb.String()
}

// BigZ prints an arbitrary-size integer; large magnitudes use the (zb neg n [..]%uint63) literal.
func BigZ(v *big.Int) string {
	if v.BitLen() < 62 {
		if v.Sign() < 0 {
			return "(" + v.String() + ")"
		}
		return v.String()
	}
	mag := new(big.Int).Abs(v).Bytes()
	lit := HexBytes(mag)
	// lit = (ub n [...]%uint63)
	return fmt.Sprintf("(zb %s %s", Bool(v.Sign() < 0), lit[4:])
}

func Opt(s *string) string {
	if s == nil {
		return "None"
	}
	return "(Some " + *s + ")"
}

func Some(s string) string { return "(Some " + s + ")" }

// Str prints a Go string as a Coq list of byte values (strings are byte lists in the models).
func Str(s string) string { return Bytes([]byte(s)) }

func Hex(b []byte) string { return hex.EncodeToString(b) }

// Chunk splits a list of printed cases into Coq definitions of bounded size to keep
// the parser and vm_compute happy; returns the definitions and the expression
// concatenating them.
func Chunk(name, ty string, items []string, per int) (defs string, expr string) {
	var sb strings.Builder
	var names []string
	for i := 0; i < len(items); i += per {
		j := i + per
		if j > len(items) {
			j = len(items)
		}
		n := fmt.Sprintf("%s_%d", name, i/per)
		names = append(names, n)
		fmt.Fprintf(&sb, "Definition %s : list (%s) := %s.\n", n, ty, List(items[i:j]))
	}
	if len(names) == 0 {
		return fmt.Sprintf("Definition %s_0 : list (%s) := [].\n", name, ty), name + "_0"
	}
	return sb.String(), "(" + strings.Join(names, " ++ ") + ")"
}
