// Package clisim is the scripted in-memory "server side" used by the C10/C11 drivers.
//
// A World hands out fault-injecting net.Conn values through a kmipclient dialer
// (WithDialerUnsafe). There is no server goroutine: the scripted server lives inside the
// connection object. A complete request written by the client is decoded, logged, and the
// response (echoing the request's identifier) is made available to Read according to the
// plan of that request. Blocking points (a held Write, a held reply) and faults are decided
// by the plan, so that a scenario imposes a precise history on the real client.
package clisim

import (
	"errors"
	"fmt"
	"io"
	"net"
	"os"
	"runtime"
	"strings"
	"sync"
	"syscall"
	"time"

	"github.com/ovh/kmip-go"
	"github.com/ovh/kmip-go/payloads"
	"github.com/ovh/kmip-go/ttlv"
)

// Kind is a transport failure kind.
type Kind int

const (
	KNone       Kind = iota
	KEOF             // io.EOF (end of stream)
	KClosedPipe      // io.ErrClosedPipe (peer closed an in-memory pipe)
	KNetClosed       // net.ErrClosed ("use of closed network connection")
	KReset           // *net.OpError{ECONNRESET}
	KBrokenPipe      // *net.OpError{EPIPE}
	KShortWrite      // io.ErrShortWrite (writes only)
	KZeroRead        // Read returns (0, nil) forever (reads only)
	KTimeout         // os.ErrDeadlineExceeded
)

var KindNames = []string{"none", "eof", "closedpipe", "netclosed", "reset", "brokenpipe", "shortwrite", "zeroread", "timeout"}

func (k Kind) String() string { return KindNames[k] }

func (k Kind) Err(op string) error {
	switch k {
	case KEOF:
		return io.EOF
	case KClosedPipe:
		return io.ErrClosedPipe
	case KNetClosed:
		return &net.OpError{Op: op, Net: "mem", Err: net.ErrClosed}
	case KReset:
		return &net.OpError{Op: op, Net: "mem", Err: os.NewSyscallError(op, syscall.ECONNRESET)}
	case KBrokenPipe:
		return &net.OpError{Op: op, Net: "mem", Err: os.NewSyscallError(op, syscall.EPIPE)}
	case KShortWrite:
		return io.ErrShortWrite
	case KTimeout:
		return &net.OpError{Op: op, Net: "mem", Err: os.ErrDeadlineExceeded}
	}
	return errors.New("clisim: unspecified failure")
}

// WriteAct says what the transport does with the client's Write of one request.
type WriteAct int

const (
	WOk    WriteAct = iota // whole request accepted, the server sees it
	WFail                  // nothing written, error of the given kind
	WShort                 // some bytes written (n < len), error of the given kind; the server never sees the request
)

// ReplyAct says what the server does once it has received a request.
type ReplyAct int

const (
	RNow      ReplyAct = iota // reply
	RFail                     // no reply: the client's Read fails with Kind
	RPartial                  // PartialN bytes of the reply, then Read fails with Kind
	RThenFail                 // full reply, then the next Read fails with Kind ("server closes right after replying")
	RSilent                   // never replies (the client's Read blocks until the connection is closed)
)

// ReqPlan is the scripted fate of the j-th request written on a connection.
type ReqPlan struct {
	Write    WriteAct
	WKind    Kind
	ShortN   int // WShort: bytes accepted (clamped to [1,len-1])
	Reply    ReplyAct
	RKind    Kind
	PartialN int  // RPartial: bytes delivered before the failure (clamped to [0,len-1])
	Chunk    int  // >0: Read returns at most Chunk bytes at a time
	Junk     bool // a server-originated request message precedes the reply
}

// ConnPlan is the script of one connection (dial index d).
type ConnPlan struct {
	DialFail bool
	Reqs     []ReqPlan // beyond the list: all-default (WOk, RNow)
}

// Received is one request seen by the scripted server.
type Received struct {
	Conn int    // dial index
	Seq  int    // request index on that connection
	ID   string // identifier carried by the request ("" for DiscoverVersions)
	Op   kmip.Operation
}

// World is the scripted environment of one client.
type World struct {
	mu    sync.Mutex
	cond  *sync.Cond
	Plans []ConnPlan
	conns []*Conn
	dials int
	Log   []Received
	// one-shot holds armed by the harness for the next request written / received
	holdWrite bool
	holdReply bool
	// versions advertised to DiscoverVersions
	Versions []kmip.ProtocolVersion
	// ReplyDelay, when set, delays each reply by the returned duration (concurrent stress runs)
	ReplyDelay func() time.Duration
	Events     []string
}

func NewWorld(plans []ConnPlan) *World {
	w := &World{Plans: plans, Versions: []kmip.ProtocolVersion{kmip.V1_4, kmip.V1_3, kmip.V1_2, kmip.V1_1, kmip.V1_0}}
	w.cond = sync.NewCond(&w.mu)
	return w
}

func (w *World) plan(d int) ConnPlan {
	if d < len(w.Plans) {
		return w.Plans[d]
	}
	return ConnPlan{}
}

// Dial is the kmipclient.DialerFunc body.
func (w *World) Dial() (net.Conn, error) {
	w.mu.Lock()
	defer w.mu.Unlock()
	d := w.dials
	w.dials++
	p := w.plan(d)
	if p.DialFail {
		w.conns = append(w.conns, nil)
		w.event("dial %d fails", d)
		w.cond.Broadcast()
		return nil, &net.OpError{Op: "dial", Net: "mem", Err: os.NewSyscallError("connect", syscall.ECONNREFUSED)}
	}
	c := &Conn{w: w, d: d, plan: p}
	w.conns = append(w.conns, c)
	w.event("dial %d ok", d)
	w.cond.Broadcast()
	return c, nil
}

func (w *World) event(f string, a ...any) {
	if len(w.Events) < 200 {
		w.Events = append(w.Events, fmt.Sprintf(f, a...))
	}
}

// Dials returns the number of dial attempts so far.
func (w *World) Dials() int {
	w.mu.Lock()
	defer w.mu.Unlock()
	return w.dials
}

// Received returns a copy of the server log.
func (w *World) Received() []Received {
	w.mu.Lock()
	defer w.mu.Unlock()
	return append([]Received(nil), w.Log...)
}

func (w *World) EventLog() []string {
	w.mu.Lock()
	defer w.mu.Unlock()
	return append([]string(nil), w.Events...)
}

// ArmHoldWrite makes the next request Write block (after the plan said WOk) until
// ReleaseWrite or until the connection is closed.
func (w *World) ArmHoldWrite() { w.mu.Lock(); w.holdWrite = true; w.mu.Unlock() }

// ArmHoldReply makes the reply to the next received request wait for ReleaseReply.
func (w *World) ArmHoldReply() { w.mu.Lock(); w.holdReply = true; w.mu.Unlock() }

func (w *World) Disarm() { w.mu.Lock(); w.holdWrite = false; w.holdReply = false; w.mu.Unlock() }

// waitFor blocks until pred (evaluated under the lock) holds or the timeout expires.
func (w *World) waitFor(timeout time.Duration, pred func() bool) bool {
	deadline := time.Now().Add(timeout)
	stop := make(chan struct{})
	defer close(stop)
	go func() { // wake-up ticker so that the deadline is noticed
		t := time.NewTicker(5 * time.Millisecond)
		defer t.Stop()
		for {
			select {
			case <-stop:
				return
			case <-t.C:
				w.mu.Lock()
				w.cond.Broadcast()
				w.mu.Unlock()
			}
		}
	}()
	w.mu.Lock()
	defer w.mu.Unlock()
	for !pred() {
		if time.Now().After(deadline) {
			return false
		}
		w.cond.Wait()
	}
	return true
}

// WaitWriteHeld waits until a Write is parked on an armed hold; or done is closed.
func (w *World) WaitHeld(timeout time.Duration, done <-chan struct{}) (writeHeld, replyHeld bool) {
	w.waitFor(timeout, func() bool {
		select {
		case <-done:
			return true
		default:
		}
		for _, c := range w.conns {
			if c != nil && !c.closed && (c.writeHeld || c.heldReply != nil) {
				return true
			}
		}
		return false
	})
	w.mu.Lock()
	defer w.mu.Unlock()
	for _, c := range w.conns {
		if c != nil && !c.closed && c.writeHeld {
			writeHeld = true
		}
		if c != nil && !c.closed && c.heldReply != nil {
			replyHeld = true
		}
	}
	return
}

// Poke wakes up waiters (used when an external condition such as `done` changed).
func (w *World) Poke() { w.mu.Lock(); w.cond.Broadcast(); w.mu.Unlock() }

// ReleaseAll releases every held write and held reply.
func (w *World) ReleaseAll() {
	w.mu.Lock()
	defer w.mu.Unlock()
	w.holdWrite, w.holdReply = false, false
	for _, c := range w.conns {
		if c == nil {
			continue
		}
		if c.writeHeld {
			c.writeRelease = true
		}
		if c.heldReply != nil {
			c.deliver(c.heldReply)
			c.heldReply = nil
		}
	}
	w.cond.Broadcast()
}

// Settle waits until every connection is either closed by the client or quiescent
// (no failure delivered, reader parked in Read with nothing to read, no write in progress).
func (w *World) Settle(timeout time.Duration) bool {
	return w.waitFor(timeout, func() bool {
		for _, c := range w.conns {
			if c == nil {
				continue
			}
			if c.closed {
				if c.writing { // a parked Write has not yet noticed the close
					return false
				}
				continue
			}
			if c.doomed || !c.readerWaiting || len(c.rbuf) > 0 || c.writing {
				return false
			}
		}
		return true
	})
}

// OpenConns is the number of connections handed out and not closed by the client.
func (w *World) OpenConns() int {
	w.mu.Lock()
	defer w.mu.Unlock()
	n := 0
	for _, c := range w.conns {
		if c != nil && !c.closed {
			n++
		}
	}
	return n
}

// Conn is the client side of one scripted connection.
type Conn struct {
	w    *World
	d    int
	plan ConnPlan

	closed        bool
	doomed        bool // a failure has been (or will be) delivered to the client
	nreq          int
	rbuf          []byte
	rfault        Kind // delivered once rbuf is drained
	chunk         int
	readerWaiting bool
	writing       bool
	writeHeld     bool
	writeRelease  bool
	heldReply     *reply
}

type reply struct {
	silent bool
	data   []byte
	fault  Kind
	chunk  int
}

func (c *Conn) reqPlan(j int) ReqPlan {
	if j < len(c.plan.Reqs) {
		return c.plan.Reqs[j]
	}
	return ReqPlan{}
}

func (c *Conn) deliver(r *reply) {
	if r.silent {
		return
	}
	c.rbuf = append(c.rbuf, r.data...)
	if r.chunk > 0 {
		c.chunk = r.chunk
	}
	if r.fault != KNone {
		c.rfault = r.fault
		c.doomed = true
	}
}

func (c *Conn) Read(p []byte) (int, error) {
	w := c.w
	w.mu.Lock()
	defer w.mu.Unlock()
	for {
		if c.closed {
			return 0, &net.OpError{Op: "read", Net: "mem", Err: net.ErrClosed}
		}
		if len(c.rbuf) > 0 {
			n := len(p)
			if c.chunk > 0 && n > c.chunk {
				n = c.chunk
			}
			if n > len(c.rbuf) {
				n = len(c.rbuf)
			}
			copy(p, c.rbuf[:n])
			c.rbuf = c.rbuf[n:]
			w.cond.Broadcast()
			return n, nil
		}
		if c.rfault != KNone {
			w.event("conn %d read fails %s", c.d, c.rfault)
			if c.rfault == KZeroRead {
				return 0, nil
			}
			return 0, c.rfault.Err("read")
		}
		c.readerWaiting = true
		w.cond.Broadcast()
		w.cond.Wait()
		c.readerWaiting = false
	}
}

func (c *Conn) Write(b []byte) (int, error) {
	w := c.w
	w.mu.Lock()
	defer w.mu.Unlock()
	if c.closed {
		return 0, &net.OpError{Op: "write", Net: "mem", Err: net.ErrClosed}
	}
	j := c.nreq
	c.nreq++
	pl := c.reqPlan(j)
	switch pl.Write {
	case WFail:
		c.doomed = true
		w.event("conn %d write %d fails %s", c.d, j, pl.WKind)
		w.cond.Broadcast()
		return 0, pl.WKind.Err("write")
	case WShort:
		c.doomed = true
		n := pl.ShortN
		if n < 1 {
			n = 1
		}
		if n > len(b)-1 {
			n = len(b) - 1
		}
		w.event("conn %d write %d short %d/%d %s", c.d, j, n, len(b), pl.WKind)
		w.cond.Broadcast()
		return n, pl.WKind.Err("write")
	}
	if w.holdWrite {
		w.holdWrite = false
		c.writeHeld = true
		c.writing = true
		w.event("conn %d write %d held", c.d, j)
		w.cond.Broadcast()
		for !c.closed && !c.writeRelease {
			w.cond.Wait()
		}
		c.writeHeld = false
		c.writing = false
		c.writeRelease = false
		if c.closed {
			w.event("conn %d held write %d aborted by close", c.d, j)
			w.cond.Broadcast()
			return 0, &net.OpError{Op: "write", Net: "mem", Err: net.ErrClosed}
		}
	}
	// the server receives the request
	var req kmip.RequestMessage
	if err := ttlv.UnmarshalTTLV(b, &req); err != nil {
		w.event("conn %d request %d undecodable: %v", c.d, j, err)
		c.doomed = true
		c.rfault = KReset
		w.cond.Broadcast()
		return len(b), nil
	}
	rec := Received{Conn: c.d, Seq: j}
	resp := kmip.ResponseMessage{Header: kmip.ResponseHeader{ProtocolVersion: req.Header.ProtocolVersion, TimeStamp: time.Unix(1, 0), BatchCount: int32(len(req.BatchItem))}}
	for _, bi := range req.BatchItem {
		rec.Op = bi.Operation
		item := kmip.ResponseBatchItem{Operation: bi.Operation, UniqueBatchItemID: bi.UniqueBatchItemID, ResultStatus: kmip.ResultStatusSuccess}
		switch p := bi.RequestPayload.(type) {
		case *payloads.DiscoverVersionsRequestPayload:
			item.ResponsePayload = &payloads.DiscoverVersionsResponsePayload{ProtocolVersion: w.Versions}
		case *payloads.ActivateRequestPayload:
			rec.ID = p.UniqueIdentifier
			item.ResponsePayload = &payloads.ActivateResponsePayload{UniqueIdentifier: p.UniqueIdentifier}
		case *payloads.EncryptRequestPayload:
			// the identifier travels as a BYTE string (what the caller gets back is a []byte field)
			rec.ID = string(p.Data)
			item.ResponsePayload = &payloads.EncryptResponsePayload{UniqueIdentifier: "k", Data: append([]byte{}, p.Data...)}
		default:
			item.ResultStatus = kmip.ResultStatusOperationFailed
			item.ResultReason = kmip.ResultReasonOperationNotSupported
		}
		resp.BatchItem = append(resp.BatchItem, item)
	}
	w.Log = append(w.Log, rec)
	w.event("conn %d request %d received id=%q", c.d, j, rec.ID)
	data := ttlv.MarshalTTLV(&resp)
	r := &reply{chunk: pl.Chunk}
	if pl.Junk {
		// a server-originated request message, ignored by the client's read loop
		junk := kmip.NewRequestMessage(kmip.V1_4, &payloads.DiscoverVersionsRequestPayload{})
		r.data = append(r.data, ttlv.MarshalTTLV(&junk)...)
	}
	switch pl.Reply {
	case RNow:
		r.data = append(r.data, data...)
	case RFail:
		r.data = nil
		r.fault = pl.RKind
	case RPartial:
		n := pl.PartialN
		if n < 0 {
			n = 0
		}
		if n > len(data)-1 {
			n = len(data) - 1
		}
		r.data = append(r.data, data[:n]...)
		r.fault = pl.RKind
	case RThenFail:
		r.data = append(r.data, data...)
		r.fault = pl.RKind
	case RSilent:
		r = &reply{silent: true}
	}
	{
		if w.holdReply {
			w.holdReply = false
			c.heldReply = r
			w.event("conn %d reply %d held", c.d, j)
		} else if w.ReplyDelay != nil {
			if d := w.ReplyDelay(); d > 0 {
				time.AfterFunc(d, func() {
					w.mu.Lock()
					c.deliver(r)
					w.cond.Broadcast()
					w.mu.Unlock()
				})
			} else {
				c.deliver(r)
			}
		} else {
			c.deliver(r)
		}
	}
	w.cond.Broadcast()
	return len(b), nil
}

func (c *Conn) Close() error {
	w := c.w
	w.mu.Lock()
	defer w.mu.Unlock()
	if c.closed {
		return &net.OpError{Op: "close", Net: "mem", Err: net.ErrClosed}
	}
	c.closed = true
	w.event("conn %d closed by client", c.d)
	w.cond.Broadcast()
	return nil
}

type memAddr struct{}

func (memAddr) Network() string { return "mem" }
func (memAddr) String() string  { return "mem" }

func (c *Conn) LocalAddr() net.Addr                { return memAddr{} }
func (c *Conn) RemoteAddr() net.Addr               { return memAddr{} }
func (c *Conn) SetDeadline(t time.Time) error      { return nil }
func (c *Conn) SetReadDeadline(t time.Time) error  { return nil }
func (c *Conn) SetWriteDeadline(t time.Time) error { return nil }

// ClientGoroutines counts live goroutines running the client's connection loops.
func ClientGoroutines() (readloops, writeloops int) {
	buf := make([]byte, 1<<20)
	for {
		n := runtime.Stack(buf, true)
		if n < len(buf) {
			buf = buf[:n]
			break
		}
		buf = make([]byte, 2*len(buf))
	}
	s := string(buf)
	readloops = strings.Count(s, "kmipclient.(*conn).readloop(")
	writeloops = strings.Count(s, "kmipclient.(*conn).writeloop(")
	return
}

// WaitClientGoroutines polls until no more than the given numbers of connection loops are alive
// or the timeout expires; returns the excess.
func WaitClientGoroutines(base1, base2 int, timeout time.Duration) (readloops, writeloops int) {
	deadline := time.Now().Add(timeout)
	for {
		readloops, writeloops = ClientGoroutines()
		readloops -= base1
		writeloops -= base2
		if (readloops <= 0 && writeloops <= 0) || time.Now().After(deadline) {
			if readloops < 0 {
				readloops = 0
			}
			if writeloops < 0 {
				writeloops = 0
			}
			return
		}
		runtime.Gosched()
		time.Sleep(200 * time.Microsecond)
	}
}

// ReqCounts returns, per dial index, the number of Writes attempted on that connection
// (-1 for a failed dial).
func (w *World) ReqCounts() []int {
	w.mu.Lock()
	defer w.mu.Unlock()
	out := make([]int, len(w.conns))
	for i, c := range w.conns {
		if c == nil {
			out[i] = -1
		} else {
			out[i] = c.nreq
		}
	}
	return out
}
