// Package memnet is an in-memory net.Listener / net.Conn pair for driving a real
// kmipserver.Server without the operating system: bounded buffers (so that a peer which does
// not read blocks the writer), half-close, full close, and an injectable Accept error.
package memnet

import (
	"errors"
	"io"
	"net"
	"sync"
	"time"
)

type addr string

func (a addr) Network() string { return "mem" }
func (a addr) String() string  { return string(a) }

// half is one direction of a connection.
type half struct {
	mu      sync.Mutex
	cond    *sync.Cond
	buf     []byte
	cap     int  // maximum buffered bytes (>=1)
	wclosed bool // writer closed: reader gets EOF after draining
	rclosed bool // reader closed: writer gets ErrClosedPipe
}

func newHalf(capacity int) *half {
	if capacity < 1 {
		capacity = 1
	}
	h := &half{cap: capacity}
	h.cond = sync.NewCond(&h.mu)
	return h
}

// Conn is one end of an in-memory duplex connection.
type Conn struct {
	r, w   *half
	local  addr
	remote addr
	once   sync.Once
	closed chan struct{}
}

// Pipe returns the two ends. toServer/toClient are the buffer capacities of the two directions.
func Pipe(toServer, toClient int) (client, server *Conn) {
	cs := newHalf(toServer)
	sc := newHalf(toClient)
	client = &Conn{r: sc, w: cs, local: "client", remote: "server", closed: make(chan struct{})}
	server = &Conn{r: cs, w: sc, local: "server", remote: "client", closed: make(chan struct{})}
	return
}

func (c *Conn) isClosed() bool {
	select {
	case <-c.closed:
		return true
	default:
		return false
	}
}

func (c *Conn) Read(p []byte) (int, error) {
	h := c.r
	h.mu.Lock()
	defer h.mu.Unlock()
	for {
		if h.rclosed { // closed locally
			return 0, net.ErrClosed
		}
		if len(p) == 0 {
			return 0, nil
		}
		if len(h.buf) > 0 {
			n := copy(p, h.buf)
			h.buf = h.buf[n:]
			h.cond.Broadcast()
			return n, nil
		}
		if h.wclosed {
			return 0, io.EOF
		}
		h.cond.Wait()
	}
}

func (c *Conn) Write(p []byte) (int, error) {
	h := c.w
	h.mu.Lock()
	defer h.mu.Unlock()
	n := 0
	for {
		if h.wclosed { // closed locally (or half-closed by us)
			return n, net.ErrClosed
		}
		if h.rclosed {
			return n, io.ErrClosedPipe
		}
		if len(p) == 0 {
			return n, nil
		}
		if room := h.cap - len(h.buf); room > 0 {
			k := room
			if k > len(p) {
				k = len(p)
			}
			h.buf = append(h.buf, p[:k]...)
			p = p[k:]
			n += k
			h.cond.Broadcast()
			continue
		}
		h.cond.Wait()
	}
}

// CloseWrite half-closes: the peer reads EOF after the buffered data; we can still read.
func (c *Conn) CloseWrite() error {
	h := c.w
	h.mu.Lock()
	h.wclosed = true
	h.cond.Broadcast()
	h.mu.Unlock()
	return nil
}

// Close closes both directions.
func (c *Conn) Close() error {
	c.once.Do(func() { close(c.closed) })
	c.w.mu.Lock()
	c.w.wclosed = true
	c.w.cond.Broadcast()
	c.w.mu.Unlock()
	c.r.mu.Lock()
	c.r.rclosed = true
	c.r.buf = nil
	c.r.cond.Broadcast()
	c.r.mu.Unlock()
	return nil
}

// Done is closed once Close has been called on this end.
func (c *Conn) Done() <-chan struct{} { return c.closed }

// Pending reports the number of bytes written by the peer and not yet read.
func (c *Conn) Pending() int {
	c.r.mu.Lock()
	defer c.r.mu.Unlock()
	return len(c.r.buf)
}

func (c *Conn) LocalAddr() net.Addr                { return c.local }
func (c *Conn) RemoteAddr() net.Addr               { return c.remote }
func (c *Conn) SetDeadline(t time.Time) error      { return nil }
func (c *Conn) SetReadDeadline(t time.Time) error  { return nil }
func (c *Conn) SetWriteDeadline(t time.Time) error { return nil }

// Listener hands out the server ends of Dial-ed connections.
type Listener struct {
	ch     chan acceptItem
	closed chan struct{}
	once   sync.Once
}

type acceptItem struct {
	conn net.Conn
	err  error
}

func NewListener() *Listener {
	return &Listener{ch: make(chan acceptItem), closed: make(chan struct{})}
}

func (l *Listener) Accept() (net.Conn, error) {
	select {
	case it := <-l.ch:
		return it.conn, it.err
	case <-l.closed:
		return nil, &net.OpError{Op: "accept", Net: "mem", Err: net.ErrClosed}
	}
}

// Close closes the listener; as with a real net.Listener, closing it again is an error.
func (l *Listener) Close() error {
	first := false
	l.once.Do(func() { close(l.closed); first = true })
	if !first {
		return &net.OpError{Op: "close", Net: "mem", Err: net.ErrClosed}
	}
	return nil
}

func (l *Listener) Addr() net.Addr { return addr("mem-listener") }

var ErrListenerClosed = errors.New("memnet: listener closed")

// Dial creates a connection and hands its server end to Accept (blocks until accepted).
func (l *Listener) Dial(toServer, toClient int) (*Conn, error) {
	c, s := Pipe(toServer, toClient)
	select {
	case l.ch <- acceptItem{conn: s}:
		return c, nil
	case <-l.closed:
		return nil, ErrListenerClosed
	}
}

// DialWrapped is Dial with the server end wrapped (e.g. into a tls.Server conn).
func (l *Listener) DialWrapped(toServer, toClient int, wrap func(net.Conn) net.Conn) (*Conn, error) {
	c, s := Pipe(toServer, toClient)
	select {
	case l.ch <- acceptItem{conn: wrap(s)}:
		return c, nil
	case <-l.closed:
		return nil, ErrListenerClosed
	}
}

// InjectAcceptError makes the pending/next Accept return err.
func (l *Listener) InjectAcceptError(err error) bool {
	select {
	case l.ch <- acceptItem{err: err}:
		return true
	case <-l.closed:
		return false
	}
}
