package gv

// Schema-driven generator of well-formed KMIP messages.
//
// The generator walks reflect.Type together with the library's own field plan (Fields =
// ttlv.VerifPlan), so a field added to a struct later is populated without any change here.
// The only per-type knowledge is in hooks.go: the unions whose alternatives are selected by a
// discriminant (batch item operation <-> payload, ObjectType <-> Object, CredentialType <->
// CredentialValue, KeyFormatType <-> KeyMaterial slot, attribute name <-> value type).
//
// "Well-formed" = what the encoder can carry and the decoder reconstructs:
//   - union fields agree with their discriminant; BatchCount = number of items;
//   - times are whole seconds, durations whole seconds in [0, 2^32);
//   - a field with a version range is populated only when the range contains the message
//     version (unless Opts.IgnoreVersions); the set-version field is the message version;
//   - interface fields that the decoder requires (request payload, Object, attribute value)
//     are never nil; a ttlv.Value stored in a tagged field carries that field's tag.
//
// Every draw comes from the *h.Rand handed in: GenRequest(h.NewRand(seed).Fork(i), ...) is
// replayable from (seed, i); CoverageCase(seed, i) likewise.

import (
	"fmt"
	"math/big"
	"reflect"
	"sort"
	"time"
	"unicode/utf8"

	kmip "github.com/ovh/kmip-go"
	"github.com/ovh/kmip-go/ttlv"

	"verifharness/internal/h"
	"verifharness/internal/tv"
)

// Fill selects how optional parts (pointers, slices, omitempty fields, optional interfaces)
// are populated.
type Fill int

const (
	FillRandom Fill = iota // each optional part independently present (2/3) or absent
	FillMax                // every optional part present and every scalar non-zero
	FillMin                // every optional part absent / zero
)

// KeyValueMode selects the shape of KeyBlock.KeyValue.
type KeyValueMode int

const (
	KVRandom  KeyValueMode = iota
	KVPlain                // KeyValue.Plain with the key material slot selected by KeyFormatType
	KVWrapped              // KeyValue.Wrapped (byte string)
	KVAbsent               // KeyValue == nil (metadata only)
	KVEmpty                // KeyValue.Plain with no key material at all (all slots nil)
)

// Opts steers a generation. The zero value means "everything random".
type Opts struct {
	IgnoreVersions bool // populate version-gated fields whatever the message version
	Fill           Fill
	// Ops, when non-nil, fixes the batch: one item per entry, in order; a code that is not
	// registered yields a kmip.UnknownPayload. When nil the batch has Batch random operations
	// (about one in twelve outside the registry).
	Ops   []kmip.Operation
	Batch int // used when Ops == nil: 0 = random 0..5 items, n > 0 = n items, -1 = empty batch
	// Forced alternatives (zero = random).
	Object     kmip.ObjectType
	KeyFormat  kmip.KeyFormatType
	KeyValue   KeyValueMode
	Credential kmip.CredentialType
	// Attrs is a queue of attribute names consumed by the attribute values generated first
	// (lists take as many as remain); TreeKinds a queue of TTLV kinds (tv.KStruct..tv.KIntv)
	// for the generic trees generated first (attribute values of custom/unknown names,
	// vendor extensions, unknown payload fields).
	Attrs     []kmip.AttributeName
	TreeKinds []int
	// AttrDefault, when not "", is the name of every attribute that is not taken from Attrs
	// (makes the set of struct types occurring in a FillMax message independent of the seed).
	AttrDefault kmip.AttributeName
	// TextSafe restricts scalars to what the XML and JSON encodings can be expected to carry:
	// strings are valid UTF-8 without control characters, dates lie in the years 1..9999,
	// bit masks are non-negative (also inside generic trees). For the text-format properties.
	TextSafe bool
	// Sweep, when > 0, replaces the random draws of scalars by a deterministic walk of the
	// boundary pools: the k-th scalar of a kind takes pool element (Sweep-1+k) mod len(pool), so
	// Sweep = 1..SweepLen over one message shape puts every pool element in every position.
	Sweep int
	// EmptyType, when non-nil: in every struct of that type all optional parts (omitempty
	// fields, pointers, slices, optional unions) are left empty, whatever Fill says.
	EmptyType reflect.Type
	// NoKnownFindings avoids the two input classes on which the current code is known not to
	// round-trip: a response batch item carrying both a payload and a MessageExtension, and an
	// Import request with a KeyWrapType.
	NoKnownFindings bool
	// RegisteredEnums draws enumeration values among the registered ones only (default: a
	// quarter of the draws are boundary values of uint32).
	RegisteredEnums bool
	// AuthAlways / ExtAlways force an Authentication header / a MessageExtension in every item
	// whatever Fill says; ExtNever / IDNever force their absence.
	AuthAlways, ExtAlways, ExtNever bool
	IDAlways, IDNever               bool
}

// Versions are the five protocol versions of the library.
var Versions = []kmip.ProtocolVersion{kmip.V1_0, kmip.V1_1, kmip.V1_2, kmip.V1_3, kmip.V1_4}

type dir int

const (
	dirReq dir = iota
	dirResp
)

type gen struct {
	r     *h.Rand
	ver   kmip.ProtocolVersion
	o     Opts
	depth int
	attrs []kmip.AttributeName
	kinds []int
	kfmt  kmip.KeyFormatType // key format of the key block being generated
	cnt   map[string]int     // sweep counters per scalar kind
}

func newGen(r *h.Rand, ver kmip.ProtocolVersion, o Opts) *gen {
	initHooks()
	return &gen{r: r, ver: ver, o: o, attrs: append([]kmip.AttributeName{}, o.Attrs...), kinds: append([]int{}, o.TreeKinds...)}
}

// present decides an optional part.
func (g *gen) present() bool {
	switch g.o.Fill {
	case FillMax:
		return true
	case FillMin:
		return false
	}
	return g.r.Chance(2, 3)
}

// ------------------------------------------------------------------ scalar pools

var datePool = []int64{0, 1, -1, 1000000000, 1700000000, 1<<31 - 1, 1 << 31, 1 << 32, -(1 << 31), 253402300799, 253402300800, 4102444800, -62135596800, -62135596801}

// The pools swept by Opts.Sweep (tv's pools, plus dates and big integers of our own).
var (
	poolI32  = tv.Int32Pool()
	poolI64  = tv.Int64Pool()
	poolU32  = tv.U32Pool()
	poolText = tv.TextPool()
	poolBig  = bigPool()
)

// SweepLen is the number of Sweep values that exhausts every pool but the big integers
// (BigSweepLen for those).
func SweepLen() int {
	n := 0
	for _, l := range []int{len(poolI32), len(poolI64), len(poolU32), len(poolText), len(datePool), 18} {
		n = max(n, l)
	}
	return n
}

func BigSweepLen() int { return len(poolBig) }

func bigPool() []*big.Int {
	var out []*big.Int
	out = append(out, big.NewInt(0))
	for _, k := range []uint{0, 7, 8, 15, 16, 31, 32, 63, 64, 127, 128, 1023, 2047} {
		p := new(big.Int).Lsh(big.NewInt(1), k)
		for _, d := range []int64{-1, 0, 1} {
			v := new(big.Int).Add(p, big.NewInt(d))
			out = append(out, v, new(big.Int).Neg(v))
		}
	}
	return out
}

// sweep returns the pool index of the next draw of kind k in sweep mode (ok=false: random mode).
func (g *gen) sweep(k string, n int) (int, bool) {
	if g.o.Sweep <= 0 || n == 0 {
		return 0, false
	}
	if g.cnt == nil {
		g.cnt = map[string]int{}
	}
	i := (g.o.Sweep - 1 + g.cnt[k]) % n
	g.cnt[k]++
	return i, true
}

func (g *gen) i32() int64 {
	if i, ok := g.sweep("i32", len(poolI32)); ok {
		return poolI32[i]
	}
	return tv.GenLeaf(g.r, tv.KInt).I
}
func (g *gen) i64() int64 {
	if i, ok := g.sweep("i64", len(poolI64)); ok {
		return poolI64[i]
	}
	return tv.GenLeaf(g.r, tv.KLong).I
}
func (g *gen) u32() int64 {
	if i, ok := g.sweep("u32", len(poolU32)); ok {
		return poolU32[i]
	}
	return tv.GenLeaf(g.r, tv.KEnum).I
}
func textSafe(s string) bool {
	if !utf8.ValidString(s) {
		return false
	}
	for _, c := range s {
		if c < 0x20 || c == 0x7f {
			return false
		}
	}
	return true
}

const minDate, maxDate = -62135596800, 253402300799 // 0001-01-01 .. 9999-12-31 UTC

func (g *gen) text() string {
	for {
		s := ""
		if i, ok := g.sweep("text", len(poolText)); ok {
			s = poolText[i]
		} else {
			s = string(tv.GenText(g.r))
		}
		if !g.o.TextSafe || textSafe(s) {
			return s
		}
	}
}
func (g *gen) bytes() []byte {
	if i, ok := g.sweep("bytes", 18); ok {
		return g.r.Bytes(i) // every length 0..17: every residue mod 8, below / at / above 8 and 16
	}
	return tv.GenBytes(g.r)
}
func (g *gen) big() *big.Int {
	if i, ok := g.sweep("big", len(poolBig)); ok {
		return new(big.Int).Set(poolBig[i])
	}
	return tv.GenBig(g.r)
}

func (g *gen) date() time.Time {
	for {
		var d int64
		if i, ok := g.sweep("date", len(datePool)); ok {
			d = datePool[i]
		} else if g.r.Chance(1, 5) {
			d = g.i64()
		} else {
			d = datePool[g.r.Intn(len(datePool))]
		}
		if !g.o.TextSafe || (d >= minDate && d <= maxDate) {
			return time.Unix(d, 0)
		}
	}
}

var (
	regEnums map[int][]uint32
	regMasks map[int]int
)

func registry() {
	if regEnums != nil {
		return
	}
	d := ttlv.VerifRegistryDump()
	regEnums = map[int][]uint32{}
	for tag, m := range d.EnumNames {
		var l []uint32
		for v := range m {
			l = append(l, v)
		}
		sort.Slice(l, func(i, j int) bool { return l[i] < l[j] })
		regEnums[tag] = l
	}
	regMasks = map[int]int{}
	for tag, names := range d.BitmaskNames {
		regMasks[tag] = len(names)
	}
}

// EnumValues lists the registered values of the enumeration with default tag `tag`.
func EnumValues(tag int) []uint32 { registry(); return regEnums[tag] }

func (g *gen) enum(t reflect.Type) uint64 {
	registry()
	vals := regEnums[ttlv.VerifTagForType(t)]
	if i, ok := g.sweep("enum:"+t.String(), len(vals)); ok {
		return uint64(vals[i])
	}
	if len(vals) > 0 && (g.o.RegisteredEnums || g.r.Chance(3, 4)) {
		return uint64(vals[g.r.Intn(len(vals))])
	}
	if g.o.RegisteredEnums {
		return 1
	}
	return uint64(g.u32())
}

func (g *gen) mask(t reflect.Type) int64 {
	registry()
	n := regMasks[ttlv.VerifTagForType(t)]
	if n > 0 && g.r.Chance(3, 4) {
		var v int64
		for i := 0; i < n && i < 31; i++ {
			if g.r.Chance(1, 3) {
				v |= 1 << i
			}
		}
		return v
	}
	if g.o.TextSafe {
		return g.i32() & 0x7fffffff
	}
	return g.i32()
}

func filtered(draw func() int64, lo, hi int64) int64 {
	for i := 0; i < 64; i++ {
		if v := draw(); v >= lo && v <= hi {
			return v
		}
	}
	return lo
}

var attrNameType = reflect.TypeFor[kmip.AttributeName]()

// scalar sets v (settable, of a scalar type) to a value from the boundary pools.
func (g *gen) scalar(v reflect.Value) {
	t := v.Type()
	switch {
	case ttlv.VerifIsEnum(t):
		v.SetUint(g.enum(t))
		return
	case ttlv.VerifIsBitmask(t):
		v.SetInt(g.mask(t))
		return
	case t == tDuration:
		v.SetInt(g.u32() * int64(time.Second))
		return
	case t == tTime:
		v.Set(reflect.ValueOf(g.date()))
		return
	case t == tBigInt:
		v.Set(reflect.ValueOf(*g.big()))
		return
	case t == attrNameType:
		v.SetString(string(g.randomAttrName()))
		return
	}
	switch t.Kind() {
	case reflect.Int8:
		v.SetInt(filtered(g.i32, -128, 127))
	case reflect.Int16:
		v.SetInt(filtered(g.i32, -32768, 32767))
	case reflect.Int32:
		v.SetInt(g.i32())
	case reflect.Int64:
		v.SetInt(g.i64())
	case reflect.Uint8:
		v.SetUint(uint64(filtered(g.u32, 0, 255)))
	case reflect.Uint16:
		v.SetUint(uint64(filtered(g.u32, 0, 65535)))
	case reflect.Uint32:
		v.SetUint(uint64(g.u32()))
	case reflect.Bool:
		v.SetBool(g.r.Bool())
	case reflect.String:
		v.SetString(g.text())
	case reflect.Slice: // []byte
		v.SetBytes(g.bytes())
	default:
		// uint64 is decodable but the encoder panics on it: not carried
		panic(fmt.Errorf("gv: no generator for scalar type %s (kind %s)", t, t.Kind()))
	}
}

// nonZeroScalar draws until the value is not the zero value of its type.
func (g *gen) nonZeroScalar(v reflect.Value) {
	for i := 0; i < 50; i++ {
		g.scalar(v)
		if !isEmpty(v) {
			return
		}
	}
	t := v.Type()
	switch {
	case t == tBigInt:
		v.Set(reflect.ValueOf(*big.NewInt(65537)))
	case t == tTime:
		v.Set(reflect.ValueOf(time.Unix(1700000000, 0)))
	case t.Kind() == reflect.String:
		v.SetString("x")
	case t.Kind() == reflect.Slice:
		v.SetBytes([]byte{1})
	case t.Kind() == reflect.Bool:
		v.SetBool(true)
	case v.CanInt():
		v.SetInt(1)
	case v.CanUint():
		v.SetUint(1)
	}
}

// ------------------------------------------------------------------ generic trees

// safeTree rewrites the leaves of a generic tree that TextSafe excludes.
func (g *gen) safeTree(n tv.Node) tv.Node {
	switch n.Kind {
	case tv.KStruct:
		for i := range n.Kids {
			n.Kids[i] = g.safeTree(n.Kids[i])
		}
	case tv.KText:
		if !textSafe(string(n.S)) {
			n.S = []byte(g.text())
		}
	case tv.KDate:
		if n.I < minDate || n.I > maxDate {
			n.I = g.date().Unix()
		}
	}
	return n
}

func (g *gen) tree() tv.Node {
	if g.o.TextSafe {
		return g.safeTree(g.rawTree())
	}
	return g.rawTree()
}

func (g *gen) rawTree() tv.Node {
	if len(g.kinds) > 0 {
		k := g.kinds[0]
		g.kinds = g.kinds[1:]
		if k == tv.KStruct {
			n := tv.Node{Tag: tv.GenTag(g.r), Kind: tv.KStruct}
			for i, c := 0, 1+g.r.Intn(3); i < c; i++ {
				n.Kids = append(n.Kids, tv.Gen(g.r, 1))
			}
			return n
		}
		return tv.GenLeaf(g.r, k)
	}
	return tv.Gen(g.r, 2)
}

// treeValue is a generic tree carrying the tag of the field it is stored in.
func (g *gen) treeValue(tag int) ttlv.Value {
	v := tv.ToValue(g.tree())
	if tag != 0 {
		v.Tag = tag
	}
	return v
}

func (g *gen) treeStruct() ttlv.Struct {
	n := g.r.Intn(4)
	if g.o.Fill == FillMax && n == 0 {
		n = 1
	}
	if len(g.kinds) > n {
		n = len(g.kinds)
		if n > 12 {
			n = 12
		}
	}
	var s ttlv.Struct
	for i := 0; i < n; i++ {
		s = append(s, g.treeValue(0))
	}
	return s
}

// ------------------------------------------------------------------ the reflective walk

// fill populates the settable value v of type t. `tag` is the tag of the field v is stored
// in (0 if none); `req` says the value must be populated whatever Fill says (required by the
// decoder or by a hook).
func (g *gen) fill(v reflect.Value, tag int, req bool) {
	t := v.Type()
	if g.depth > 40 {
		panic(fmt.Errorf("gv: type recursion too deep at %s", t))
	}
	g.depth++
	defer func() { g.depth-- }()

	if hk, ok := hooks[t]; ok {
		hk(g, v, tag, req)
		return
	}
	switch {
	case t == tValue:
		v.Set(reflect.ValueOf(g.treeValue(tag)))
		return
	case t == tStruct:
		v.Set(reflect.ValueOf(g.treeStruct()))
		return
	case ScalarKind(t) != "":
		// (a pool sweep also puts the zero values of the pools in required fields)
		if req || (g.o.Fill == FillMax && g.o.Sweep == 0) {
			g.nonZeroScalar(v)
		} else {
			g.scalar(v)
		}
		return
	}
	switch t.Kind() {
	case reflect.Pointer:
		if !req && !g.present() {
			v.SetZero()
			return
		}
		p := reflect.New(t.Elem())
		// the pointee of a present pointer need not be non-zero (*bool false is a value)
		g.fill(p.Elem(), tag, false)
		v.Set(p)
	case reflect.Slice:
		n := 0
		if req || g.present() {
			n = 1 + g.r.Intn(3)
			if g.o.Fill == FillMax {
				n = 1 + g.r.Intn(2)
			}
		}
		if t.Elem() == reflect.TypeFor[kmip.Attribute]() && len(g.attrs) > 0 {
			n = len(g.attrs) // a queued list of attribute names is consumed by the first attribute list
		}
		s := reflect.MakeSlice(t, 0, n)
		if n == 0 && g.r.Bool() {
			s = reflect.Zero(t) // nil and empty are the same value
		}
		for i := 0; i < n; i++ {
			e := reflect.New(t.Elem()).Elem()
			// a nil pointer element would be dropped by the encoder; scalar elements are free
			g.fill(e, tag, t.Elem().Kind() == reflect.Pointer || t.Elem().Kind() == reflect.Interface)
			s = reflect.Append(s, e)
		}
		v.Set(s)
	case reflect.Struct:
		g.fillStruct(v)
	case reflect.Interface:
		switch t {
		case tPayload:
			v.Set(reflect.ValueOf(g.payload(g.anyOp(), dir(g.r.Intn(2)))))
		case tObject:
			v.Set(reflect.ValueOf(g.object()))
		case tAny:
			_, val := g.attrValue(g.attrName())
			v.Set(reflect.ValueOf(val))
		default:
			panic(ErrInexpressible{t})
		}
	default:
		panic(ErrInexpressible{t})
	}
}

// fillStruct populates every schema field of the struct v except those named in skip
// (handled by the calling hook).
func (g *gen) fillStruct(v reflect.Value, skip ...string) {
	t := v.Type()
fields:
	for _, f := range Fields(t) {
		for _, s := range skip {
			if s == f.SF.Name {
				continue fields
			}
		}
		fv := v.Field(f.Plan.Index)
		if f.Plan.SetVersion {
			// the field that sets the codec's version IS the message version
			fv.Set(reflect.ValueOf(g.ver).Convert(f.SF.Type))
			continue
		}
		if !g.o.IgnoreVersions && !f.InRangeOf(t, int(g.ver.ProtocolVersionMajor), int(g.ver.ProtocolVersionMinor)) {
			fv.SetZero()
			continue
		}
		ft := f.SF.Type
		if t == g.o.EmptyType && ft.Kind() != reflect.Interface &&
			(f.Plan.OmitEmpty || ft.Kind() == reflect.Pointer || (ft.Kind() == reflect.Slice && ScalarKind(ft) == "")) {
			fv.SetZero()
			continue
		}
		switch {
		case ft.Kind() == reflect.Interface:
			// the decoders of every interface field require the value
			g.fill(fv, f.Plan.Tag, true)
		case f.Plan.OmitEmpty:
			if g.present() {
				g.fill(fv, f.Plan.Tag, true)
				// (an omitempty []byte is nil or non-empty: the empty non-nil slice is encoded
				// although the model cannot tell it from nil)
				if isEmpty(fv) && ScalarKind(ft) != "" {
					g.nonZeroScalar(fv)
				}
			} else {
				fv.SetZero()
			}
		default:
			g.fill(fv, f.Plan.Tag, false)
		}
	}
	if post, ok := postHooks[t]; ok {
		post(g, v)
	}
	g.linkObjectType(v)
}

// linkObjectType: in every struct that has both an `ObjectType kmip.ObjectType` field and an
// `Object kmip.Object` field, the former is the discriminant of the latter.
func (g *gen) linkObjectType(v reflect.Value) {
	t := v.Type()
	of, ok1 := t.FieldByName("Object")
	tf, ok2 := t.FieldByName("ObjectType")
	if !ok1 || !ok2 || of.Type != tObject || tf.Type != reflect.TypeFor[kmip.ObjectType]() {
		return
	}
	if obj, ok := v.FieldByIndex(of.Index).Interface().(kmip.Object); ok && obj != nil {
		v.FieldByIndex(tf.Index).Set(reflect.ValueOf(obj.ObjectType()))
	}
}

// ------------------------------------------------------------------ messages

func (g *gen) batchOps() []kmip.Operation {
	if g.o.Ops != nil {
		return g.o.Ops
	}
	n := g.o.Batch
	switch {
	case n == 0:
		n = g.r.Intn(6)
	case n < 0:
		n = 0
	}
	ops := make([]kmip.Operation, n)
	for i := range ops {
		ops[i] = g.anyOp()
	}
	return ops
}

var unknownOps = []kmip.Operation{0x2C, 0x7fffffff, 0x80000001, 0xffffffff, 0x100}

// anyOp draws a registered operation, or (1/12) a code outside the registry.
func (g *gen) anyOp() kmip.Operation {
	u := U()
	if g.r.Chance(1, 12) {
		return unknownOps[g.r.Intn(len(unknownOps))]
	}
	return u.Ops[g.r.Intn(len(u.Ops))]
}

// GenRequest generates a well-formed request message of protocol version ver.
func GenRequest(r *h.Rand, ver kmip.ProtocolVersion, o Opts) kmip.RequestMessage {
	g := newGen(r, ver, o)
	var msg kmip.RequestMessage
	mv := reflect.ValueOf(&msg).Elem()
	g.fillStruct(mv, "BatchItem")
	if o.AuthAlways && msg.Header.Authentication == nil {
		a := reflect.New(reflect.TypeFor[kmip.Authentication]())
		g.fill(a.Elem(), 0, true)
		msg.Header.Authentication = a.Interface().(*kmip.Authentication)
	}
	it := reflect.TypeFor[kmip.RequestBatchItem]()
	for _, op := range g.batchOps() {
		iv := reflect.New(it).Elem()
		g.requestItem(iv, op)
		msg.BatchItem = append(msg.BatchItem, iv.Interface().(kmip.RequestBatchItem))
	}
	msg.Header.BatchCount = int32(len(msg.BatchItem))
	return msg
}

// GenResponse generates a well-formed response message of protocol version ver.
func GenResponse(r *h.Rand, ver kmip.ProtocolVersion, o Opts) kmip.ResponseMessage {
	g := newGen(r, ver, o)
	var msg kmip.ResponseMessage
	mv := reflect.ValueOf(&msg).Elem()
	g.fillStruct(mv, "BatchItem")
	it := reflect.TypeFor[kmip.ResponseBatchItem]()
	for _, op := range g.batchOps() {
		iv := reflect.New(it).Elem()
		g.responseItem(iv, op)
		msg.BatchItem = append(msg.BatchItem, iv.Interface().(kmip.ResponseBatchItem))
	}
	msg.Header.BatchCount = int32(len(msg.BatchItem))
	return msg
}
