package gv

// Coverage suite (an explicit plan of generation options that together populate every field
// of every reachable struct and exercise every alternative of every union), the coverage
// accounting used to check that claim by reflection, and Describe.

import (
	"os"
	"fmt"
	"math/big"
	"reflect"
	"sort"
	"strings"
	"time"

	kmip "github.com/ovh/kmip-go"
	"github.com/ovh/kmip-go/ttlv"

	"verifharness/internal/h"
	"verifharness/internal/tv"
)

// Case is one entry of the coverage plan.
type Case struct {
	Response bool
	Ver      kmip.ProtocolVersion
	Opts     Opts
	Note     string
}

// Gen generates the message of the case (kmip.RequestMessage or kmip.ResponseMessage).
func (c Case) Gen(r *h.Rand) any {
	if c.Response {
		return GenResponse(r, c.Ver, c.Opts)
	}
	return GenRequest(r, c.Ver, c.Opts)
}

// objectCarriers are the (operation, direction) pairs whose payload has an Object field.
func objectCarriers() (out []struct {
	Op   kmip.Operation
	Resp bool
	T    reflect.Type
}) {
	u := U()
	for _, op := range u.Ops {
		for d, t := range u.OpTypes[op] {
			if f, ok := t.FieldByName("Object"); ok && f.Type == tObject {
				out = append(out, struct {
					Op   kmip.Operation
					Resp bool
					T    reflect.Type
				}{op, d == 1, t})
			}
		}
	}
	return
}

// hasKeyBlock reports whether the object struct contains a key block.
func hasKeyBlock(t reflect.Type) bool {
	f, ok := t.FieldByName("KeyBlock")
	return ok && f.Type == reflect.TypeFor[kmip.KeyBlock]()
}

var plan []Case

// CoveragePlan is the fixed list of cases of the coverage suite.
func CoveragePlan() []Case {
	if plan != nil {
		return plan
	}
	if Pinned == nil {
		// which gated elements a message carries at a version comes from the pinned table
		dir := os.Getenv("VERIF_DIR")
		if dir == "" {
			dir = "/verif"
		}
		if err := LoadPinned(dir); err != nil {
			panic("pinned version table: " + err.Error())
		}
	}
	u := U()
	var p []Case
	ver := func(i int) kmip.ProtocolVersion { return Versions[i%len(Versions)] }

	// A. every operation (and an unregistered code), both directions, every version, with
	//    everything optional present and with everything optional absent
	ops := append(append([]kmip.Operation{}, u.Ops...), unknownOps[0])
	for _, v := range Versions {
		for _, resp := range []bool{false, true} {
			for _, op := range ops {
				for _, f := range []Fill{FillMax, FillMin} {
					p = append(p, Case{Response: resp, Ver: v, Opts: Opts{Fill: f, Ops: []kmip.Operation{op}}, Note: "A"})
				}
			}
		}
	}
	// B. every object type in every object-carrying payload; every key format; wrapped,
	//    absent and empty key values
	var keyed []kmip.ObjectType
	for _, o := range u.Objs {
		if hasKeyBlock(u.ObjType[o]) {
			keyed = append(keyed, o)
		}
	}
	n := 0
	for _, c := range objectCarriers() {
		for _, o := range u.Objs {
			p = append(p, Case{Response: c.Resp, Ver: ver(n), Opts: Opts{Fill: FillMax, Ops: []kmip.Operation{c.Op}, Object: o}, Note: "B/object"})
			n++
		}
		for i, kf := range KeyFormats {
			p = append(p, Case{Response: c.Resp, Ver: ver(n), Opts: Opts{Ops: []kmip.Operation{c.Op}, Object: keyed[(i+n)%len(keyed)], KeyFormat: kf, KeyValue: KVPlain}, Note: "B/format"})
			n++
		}
		for i, m := range []KeyValueMode{KVWrapped, KVAbsent, KVEmpty} {
			p = append(p, Case{Response: c.Resp, Ver: ver(n), Opts: Opts{Ops: []kmip.Operation{c.Op}, Object: keyed[(i+n)%len(keyed)], KeyValue: m}, Note: "B/keyvalue"})
			n++
		}
	}
	// C. every attribute name with a value of its registered type, custom and unknown names,
	//    at every version, full / empty / random values; generic trees of every TTLV type
	names := append([]kmip.AttributeName{}, kmip.AllAttributeNames...)
	inAll := map[kmip.AttributeName]bool{}
	for _, a := range names {
		inAll[a] = true
	}
	for _, a := range u.Attrs { // registered but not listed in AllAttributeNames
		if !inAll[a] {
			names = append(names, a)
		}
	}
	names = append(append(names, customNames...), unknownNames...)
	for _, v := range Versions {
		for _, f := range []Fill{FillMax, FillMin, FillRandom} {
			p = append(p, Case{Ver: v, Opts: Opts{Fill: f, Ops: []kmip.Operation{kmip.OperationCreate}, Attrs: names}, Note: "C/attributes"})
		}
	}
	kinds := []int{tv.KStruct, tv.KInt, tv.KLong, tv.KBig, tv.KEnum, tv.KBool, tv.KText, tv.KBytes, tv.KDate, tv.KIntv}
	for i, nm := range []kmip.AttributeName{customNames[0], unknownNames[0], customNames[1]} {
		var l []kmip.AttributeName
		for range kinds {
			l = append(l, nm)
		}
		op := kmip.OperationCreate // request: TemplateAttribute.Attribute
		if i == 1 {
			op = kmip.OperationGetAttributes // response: Attribute list
		}
		p = append(p, Case{Response: i == 1, Ver: ver(i), Opts: Opts{Ops: []kmip.Operation{op}, Attrs: l, TreeKinds: kinds, ExtNever: true}, Note: "C/trees"})
	}
	// D. every credential type at every version
	for i, v := range Versions {
		for j, ct := range CredentialTypes {
			f := FillMax
			if (i+j)%2 == 1 {
				f = FillRandom
			}
			p = append(p, Case{Ver: v, Opts: Opts{Fill: f, Batch: 1, Credential: ct, AuthAlways: true}, Note: "D/credential"})
		}
	}
	// E. batches of 0..5 items, batch item ids and message extensions present / absent
	for _, resp := range []bool{false, true} {
		for k := 0; k <= 5; k++ {
			b := k
			if k == 0 {
				b = -1
			}
			p = append(p, Case{Response: resp, Ver: ver(k), Opts: Opts{Batch: b, IDAlways: k%2 == 0, IDNever: k%2 == 1}, Note: "E/batch"})
		}
		p = append(p, Case{Response: resp, Ver: ver(1), Opts: Opts{Batch: 2, ExtAlways: true}, Note: "E/ext"})
		p = append(p, Case{Response: resp, Ver: ver(2), Opts: Opts{Batch: 2, ExtNever: true}, Note: "E/noext"})
		p = append(p, Case{Response: resp, Ver: ver(3), Opts: Opts{Batch: 2, Fill: FillMin}, Note: "E/min"})
	}
	// G. for every struct type with optional parts: a message in which a value of that type
	//    occurs with ALL its optional parts empty (at every version when the type has
	//    version-gated fields). The message that reaches the type is found among candidates
	//    whose unions are all forced, so that the occurrence does not depend on the seed.
	base := Opts{Fill: FillMax, KeyFormat: kmip.KeyFormatTypeRaw, KeyValue: KVPlain, Credential: kmip.CredentialTypeUsernameAndPassword,
		AttrDefault: kmip.AttributeNameUniqueIdentifier, AuthAlways: true, Object: kmip.ObjectTypeSymmetricKey}
	var cands []Case
	with := func(resp bool, f func(o *Opts)) {
		o := base
		f(&o)
		cands = append(cands, Case{Response: resp, Ver: kmip.V1_4, Opts: o})
	}
	with(false, func(o *Opts) { o.Ops = []kmip.Operation{kmip.OperationCreate}; o.Attrs = names })
	for _, ct := range CredentialTypes {
		with(false, func(o *Opts) { o.Ops = []kmip.Operation{kmip.OperationGet}; o.Credential = ct })
	}
	for _, c := range objectCarriers() {
		for _, o := range u.Objs {
			with(c.Resp, func(x *Opts) { x.Ops = []kmip.Operation{c.Op}; x.Object = o })
		}
		for _, kf := range KeyFormats {
			with(c.Resp, func(x *Opts) { x.Ops = []kmip.Operation{c.Op}; x.KeyFormat = kf })
		}
	}
	for _, resp := range []bool{false, true} {
		for _, op := range ops {
			with(resp, func(x *Opts) { x.Ops = []kmip.Operation{op} })
		}
	}
	route := map[reflect.Type]int{}
	for i, c := range cands {
		for t := range structTypesIn(c.Gen(h.NewRand(20240928))) {
			if _, ok := route[t]; !ok {
				route[t] = i
			}
		}
	}
	n = 0
	for _, t := range u.Structs {
		optional, gated := false, false
		for _, f := range Fields(t) {
			ft := f.SF.Type
			if f.Plan.OmitEmpty || ft.Kind() == reflect.Pointer || (ft.Kind() == reflect.Slice && ScalarKind(ft) == "") {
				optional = true
			}
			if f.Plan.HasRange {
				gated = true
			}
		}
		ci, ok := route[t]
		if !optional || !ok {
			continue // (a type without route shows up as a coverage gap in gvcheck)
		}
		vs := []kmip.ProtocolVersion{ver(n)}
		if gated {
			vs = Versions
		}
		n++
		for _, v := range vs {
			c := cands[ci]
			c.Ver = v
			c.Opts.EmptyType = t
			c.Note = "G/empty"
			p = append(p, c)
		}
	}
	// H. deterministic sweeps of the scalar boundary pools over two fixed message shapes
	//    (all attributes; a private key with transparent RSA material: big integers)
	for sw := 1; sw <= SweepLen(); sw++ {
		p = append(p, Case{Ver: ver(sw), Opts: Opts{Fill: FillMax, Sweep: sw, Ops: []kmip.Operation{kmip.OperationCreate}, Attrs: u.Attrs, AttrDefault: kmip.AttributeNameUniqueIdentifier}, Note: "H/sweep"})
	}
	for sw := 1; sw <= BigSweepLen(); sw += 7 { // 8 big integers per message
		p = append(p, Case{Ver: ver(sw), Opts: Opts{Fill: FillMax, Sweep: sw, Ops: []kmip.Operation{kmip.OperationRegister}, Object: kmip.ObjectTypePrivateKey,
			KeyFormat: kmip.KeyFormatTypeTransparentRSAPrivateKey, KeyValue: KVPlain, AttrDefault: kmip.AttributeNameUniqueIdentifier}, Note: "H/sweep-big"})
	}
	// F. unconstrained random messages
	for i := 0; i < 40; i++ {
		p = append(p, Case{Response: i%2 == 1, Ver: ver(i / 2), Opts: Opts{}, Note: "F/random"})
	}
	// I. a version-discovery item (it carries protocol versions of its own, as data) in front of an
	//    item with version-gated elements: what the header said must keep deciding
	for _, v := range Versions {
		for _, resp := range []bool{false, true} {
			for _, op := range []kmip.Operation{kmip.OperationLocate, kmip.OperationQuery, kmip.OperationImport} {
				p = append(p, Case{Response: resp, Ver: v, Opts: Opts{Fill: FillMax, Ops: []kmip.Operation{kmip.OperationDiscoverVersions, op}}, Note: "I/discover-first"})
			}
		}
	}
	plan = p
	return p
}

// CoverageCase generates case i of the plan from r (use the same r for every i: the case
// forks it by its index, so a case is replayable from (seed, i) alone).
func CoverageCase(r *h.Rand, i int) any {
	return CoveragePlan()[i].Gen(r.Fork(uint64(i) + 1))
}

// CoverageSuite returns the messages (kmip.RequestMessage / kmip.ResponseMessage values) of
// the whole plan.
func CoverageSuite(r *h.Rand) []any {
	p := CoveragePlan()
	out := make([]any, len(p))
	for i := range p {
		out[i] = CoverageCase(r, i)
	}
	return out
}

// structTypesIn lists the struct types of the values occurring in a message.
func structTypesIn(msg any) map[reflect.Type]bool {
	out := map[reflect.Type]bool{}
	var walk func(v reflect.Value)
	walk = func(v reflect.Value) {
		t := v.Type()
		if IsTree(t) || ScalarKind(t) != "" {
			return
		}
		switch t.Kind() {
		case reflect.Pointer, reflect.Interface:
			if !v.IsNil() {
				walk(v.Elem())
			}
		case reflect.Slice:
			for i := 0; i < v.Len(); i++ {
				walk(v.Index(i))
			}
		case reflect.Struct:
			out[t] = true
			for _, f := range Fields(t) {
				walk(v.Field(f.Plan.Index))
			}
		}
	}
	walk(reflect.ValueOf(msg))
	return out
}

// ------------------------------------------------------------------ Describe

func enumName[T ~uint32](v T) string { return ttlv.EnumStr(v) }

func payloadDesc(pl kmip.OperationPayload) string {
	if pl == nil {
		return "-"
	}
	s := enumName(pl.Operation())
	if _, ok := pl.(*kmip.UnknownPayload); ok {
		s = "Unknown(" + s + ")"
	}
	v := reflect.ValueOf(pl).Elem()
	if f := v.FieldByName("Object"); f.IsValid() && f.Type() == tObject && !f.IsNil() {
		obj := f.Interface().(kmip.Object)
		s += "(" + enumName(obj.ObjectType())
		if kb := reflect.ValueOf(obj).Elem().FieldByName("KeyBlock"); kb.IsValid() {
			k := kb.Interface().(kmip.KeyBlock)
			s += "/" + enumName(k.KeyFormatType) + "/" + keyValueShape(k)
		}
		s += ")"
	}
	return s
}

func keyValueShape(k kmip.KeyBlock) string {
	switch {
	case k.KeyValue == nil:
		return "absent"
	case k.KeyValue.Wrapped != nil:
		return "wrapped"
	case k.KeyValue.Plain != nil && reflect.ValueOf(k.KeyValue.Plain.KeyMaterial).IsZero():
		return "empty"
	case k.KeyValue.Plain != nil:
		return "plain"
	}
	return "none"
}

// Describe is a one-line summary of a generated message.
func Describe(msg any) string {
	switch m := msg.(type) {
	case *kmip.RequestMessage:
		return Describe(*m)
	case *kmip.ResponseMessage:
		return Describe(*m)
	case kmip.RequestMessage:
		var items []string
		for _, bi := range m.BatchItem {
			s := payloadDesc(bi.RequestPayload)
			if bi.MessageExtension != nil {
				s += "+ext"
			}
			items = append(items, s)
		}
		auth := ""
		if a := m.Header.Authentication; a != nil {
			auth = " auth=" + enumName(a.Credential.CredentialType)
			if len(a.AdditionalCredential) > 0 {
				auth += fmt.Sprintf("+%d", len(a.AdditionalCredential))
			}
		}
		return fmt.Sprintf("Request v%s batch=%d [%s]%s", m.Header.ProtocolVersion, len(m.BatchItem), strings.Join(items, ", "), auth)
	case kmip.ResponseMessage:
		var items []string
		for _, bi := range m.BatchItem {
			s := payloadDesc(bi.ResponsePayload)
			if bi.ResponsePayload == nil && bi.Operation != 0 {
				s = enumName(bi.Operation) + ":-"
			}
			s += "/" + enumName(bi.ResultStatus)
			if bi.MessageExtension != nil {
				s += "+ext"
			}
			items = append(items, s)
		}
		return fmt.Sprintf("Response v%s batch=%d [%s]", m.Header.ProtocolVersion, len(m.BatchItem), strings.Join(items, ", "))
	}
	return fmt.Sprintf("%T", msg)
}

// ------------------------------------------------------------------ coverage accounting

// Coverage accumulates what a set of messages exercised.
type Coverage struct {
	NonZero map[string]int               // "pkg.Type.Field" -> occurrences with a non-empty value
	Zero    map[string]int               // ... with the zero / nil / empty value
	Gated   map[string]map[string][2]int // version-gated field -> "major.minor" -> {empty, populated}
	Alt     map[string]int               // alternatives of unions and message shapes
	ver     string
}

func NewCoverage() *Coverage {
	return &Coverage{NonZero: map[string]int{}, Zero: map[string]int{}, Gated: map[string]map[string][2]int{}, Alt: map[string]int{}}
}

func isEmpty(v reflect.Value) bool {
	switch v.Kind() {
	case reflect.Slice:
		return v.Len() == 0
	}
	return v.IsZero()
}

// Add accounts one message (kmip.RequestMessage / kmip.ResponseMessage, or pointers to them).
func (c *Coverage) Add(msg any) {
	v := reflect.ValueOf(msg)
	for v.Kind() == reflect.Pointer {
		v = v.Elem()
	}
	switch m := v.Interface().(type) {
	case kmip.RequestMessage:
		c.ver = m.Header.ProtocolVersion.String()
		c.Alt["message:request:v"+c.ver]++
		c.Alt[fmt.Sprintf("batch:request:%d", len(m.BatchItem))]++
	case kmip.ResponseMessage:
		c.ver = m.Header.ProtocolVersion.String()
		c.Alt["message:response:v"+c.ver]++
		c.Alt[fmt.Sprintf("batch:response:%d", len(m.BatchItem))]++
	default:
		panic(fmt.Errorf("gv: Coverage.Add(%T)", msg))
	}
	c.walk(v)
}

func present(b bool) string {
	if b {
		return "present"
	}
	return "absent"
}

// scalar accounts the boundary pool element a scalar value is (if any).
func (c *Coverage) scalar(v reflect.Value) {
	t := v.Type()
	idx := func(pool []int64, x int64) bool {
		for _, p := range pool {
			if p == x {
				return true
			}
		}
		return false
	}
	switch ScalarKind(t) {
	case "KInt32":
		if idx(poolI32, v.Int()) {
			c.Alt[fmt.Sprintf("pool:int32:%d", v.Int())]++
		}
	case "KInt64":
		if idx(poolI64, v.Int()) {
			c.Alt[fmt.Sprintf("pool:int64:%d", v.Int())]++
		}
	case "KDuration":
		if s := v.Int() / 1e9; v.Int()%1e9 == 0 && idx(poolU32, s) {
			c.Alt[fmt.Sprintf("pool:duration:%d", s)]++
		}
	case "KTime":
		if x := v.Interface().(time.Time).Unix(); idx(datePool, x) {
			c.Alt[fmt.Sprintf("pool:date:%d", x)]++
		}
	case "KString":
		if t == attrNameType {
			return
		}
		for i, p := range poolText {
			if p == v.String() {
				c.Alt[fmt.Sprintf("pool:text:%d", i)]++
			}
		}
	case "KBytes":
		if v.Len() < 18 {
			c.Alt[fmt.Sprintf("pool:byteslen:%d", v.Len())]++
		}
	case "KBigInt":
		b := v.Interface().(big.Int)
		for i, p := range poolBig {
			if p.Cmp(&b) == 0 {
				c.Alt[fmt.Sprintf("pool:big:%d", i)]++
			}
		}
	}
}

func (c *Coverage) walk(v reflect.Value) {
	t := v.Type()
	if IsTree(t) {
		return
	}
	if ScalarKind(t) != "" {
		c.scalar(v)
		return
	}
	switch t.Kind() {
	case reflect.Pointer, reflect.Interface:
		if !v.IsNil() {
			c.walk(v.Elem())
		}
	case reflect.Slice:
		for i := 0; i < v.Len(); i++ {
			c.walk(v.Index(i))
		}
	case reflect.Struct:
		c.alternatives(v)
		for _, f := range Fields(t) {
			fv := v.Field(f.Plan.Index)
			key := TypeName(t) + "." + f.SF.Name
			e := isEmpty(fv)
			if e {
				c.Zero[key]++
			} else {
				c.NonZero[key]++
			}
			if f.Plan.HasRange {
				if c.Gated[key] == nil {
					c.Gated[key] = map[string][2]int{}
				}
				x := c.Gated[key][c.ver]
				if e {
					x[0]++
				} else {
					x[1]++
				}
				c.Gated[key][c.ver] = x
			}
			c.walk(fv)
		}
	}
}

func (c *Coverage) alternatives(v reflect.Value) {
	switch x := v.Interface().(type) {
	case kmip.RequestBatchItem:
		c.Alt["op:request:"+opName(x.RequestPayload)]++
		c.Alt["ext:request:"+present(x.MessageExtension != nil)]++
		c.Alt["id:request:"+present(len(x.UniqueBatchItemID) > 0)]++
	case kmip.ResponseBatchItem:
		if x.ResponsePayload != nil {
			c.Alt["op:response:"+opName(x.ResponsePayload)]++
			c.Alt["ext-after-payload:response:"+present(x.MessageExtension != nil)]++
		} else {
			c.Alt["op:response:none"]++
		}
		c.Alt["ext:response:"+present(x.MessageExtension != nil)]++
		c.Alt["id:response:"+present(len(x.UniqueBatchItemID) > 0)]++
	case kmip.Credential:
		c.Alt["credential:"+enumName(x.CredentialType)]++
	case kmip.KeyBlock:
		c.Alt["keyformat:"+enumName(x.KeyFormatType)]++
		c.Alt["keyvalue:"+keyValueShape(x)]++
	case kmip.Attribute:
		k := AttrKind(x.AttributeName)
		if k == "registered" {
			c.Alt["attr:"+string(x.AttributeName)]++
		} else {
			c.Alt["attr:"+k]++
			if tvv, ok := x.AttributeValue.(ttlv.Value); ok {
				if n, ok := tv.FromValue(tvv); ok {
					c.Alt["attrtree:"+k+":"+tv.KindName[n.Kind]]++
				}
			}
		}
	}
	if f := v.FieldByName("Object"); f.IsValid() && f.Type() == tObject && !f.IsNil() {
		c.Alt["object:"+TypeName(v.Type())+":"+enumName(f.Interface().(kmip.Object).ObjectType())]++
	}
}

func opName(pl kmip.OperationPayload) string {
	if pl == nil {
		return "none"
	}
	if _, ok := pl.(*kmip.UnknownPayload); ok {
		return "unknown"
	}
	return enumName(pl.Operation())
}

// Missing lists everything the accounted messages did NOT exercise (empty = full coverage).
// ignoreVersions says the messages were generated with Opts.IgnoreVersions.
func (c *Coverage) Missing() []string {
	u := U()
	var miss []string
	need := func(k string) {
		if c.Alt[k] == 0 {
			miss = append(miss, "alternative never generated: "+k)
		}
	}
	for _, t := range u.Structs {
		for _, f := range Fields(t) {
			key := TypeName(t) + "." + f.SF.Name
			if c.NonZero[key] == 0 {
				miss = append(miss, "field never populated: "+key)
			}
			ft := f.SF.Type
			optional := f.Plan.OmitEmpty || ft.Kind() == reflect.Pointer || (ft.Kind() == reflect.Slice && ScalarKind(ft) == "")
			if hasObjectWithoutType(t) && f.SF.Name == "Attribute" {
				optional = false // it must hold the "Object Type" attribute the decoder looks for
			}
			if optional && c.Zero[key] == 0 {
				miss = append(miss, "optional field never empty: "+key)
			}
			if f.Plan.HasRange || (Pinned != nil && func() bool { _, ok := Pinned[t.String()+"."+f.SF.Name]; return ok }()) {
				for _, ver := range Versions {
					x := c.Gated[key][ver.String()]
					in := f.InRangeOf(t, int(ver.ProtocolVersionMajor), int(ver.ProtocolVersionMinor))
					switch {
					case in && x[1] == 0:
						miss = append(miss, fmt.Sprintf("gated field never populated at v%s: %s", ver, key))
					case in && x[0] == 0:
						miss = append(miss, fmt.Sprintf("gated field never empty at v%s: %s", ver, key))
					case !in && x[1] != 0:
						miss = append(miss, fmt.Sprintf("gated field populated outside its range at v%s: %s", ver, key))
					}
				}
			}
		}
	}
	for _, d := range []string{"request", "response"} {
		for _, op := range u.Ops {
			need("op:" + d + ":" + enumName(op))
		}
		need("op:" + d + ":unknown")
		for _, ver := range Versions {
			need("message:" + d + ":v" + ver.String())
		}
		for k := 0; k <= 5; k++ {
			need(fmt.Sprintf("batch:%s:%d", d, k))
		}
		for _, p := range []string{"present", "absent"} {
			need("ext:" + d + ":" + p)
			need("id:" + d + ":" + p)
		}
	}
	need("op:response:none")
	need("ext-after-payload:response:present")
	for _, oc := range objectCarriers() {
		for _, o := range u.Objs {
			need("object:" + TypeName(oc.T) + ":" + enumName(o))
		}
	}
	for _, kf := range KeyFormats {
		need("keyformat:" + enumName(kf))
	}
	for _, s := range []string{"plain", "wrapped", "absent", "empty"} {
		need("keyvalue:" + s)
	}
	for _, ct := range CredentialTypes {
		need("credential:" + enumName(ct))
	}
	for _, a := range kmip.AllAttributeNames {
		need("attr:" + string(a))
	}
	for _, a := range u.Attrs {
		need("attr:" + string(a))
	}
	for _, k := range []string{"custom", "unknown"} {
		need("attr:" + k)
		for kind := tv.KStruct; kind <= tv.KIntv; kind++ {
			need("attrtree:" + k + ":" + tv.KindName[kind])
		}
	}
	for _, x := range poolI32 {
		need(fmt.Sprintf("pool:int32:%d", x))
	}
	for _, x := range poolI64 {
		need(fmt.Sprintf("pool:int64:%d", x))
	}
	for _, x := range poolU32 {
		need(fmt.Sprintf("pool:duration:%d", x))
	}
	for _, x := range datePool {
		need(fmt.Sprintf("pool:date:%d", x))
	}
	for i := range poolText {
		need(fmt.Sprintf("pool:text:%d", i))
	}
	for i := 0; i < 18; i++ {
		need(fmt.Sprintf("pool:byteslen:%d", i))
	}
	for i := range poolBig {
		need(fmt.Sprintf("pool:big:%d", i))
	}
	sort.Strings(miss)
	// remove duplicates (an attribute may be both in AllAttributeNames and in the table)
	out := miss[:0]
	for i, m := range miss {
		if i == 0 || m != miss[i-1] {
			out = append(out, m)
		}
	}
	return out
}
