// Package gv is the Go side of the struct-level codec tie (properties C01, C05, C06, C18):
//
//   - types.go   : the type universe reachable from kmip.RequestMessage / kmip.ResponseMessage,
//     Go type -> Schema.ty terms (CoqTy), the field plan of a struct as the library computes it
//     (ttlv.VerifPlan);
//   - value.go   : Go value -> Schema.value terms (CoqValue);
//   - gen.go, hooks.go, cover.go : schema-driven generation of well-formed messages.
//
// Conventions (they mirror coq/theories/Schema.v and must stay in sync with it):
//
//   - type names are reflect.Type.String() of the struct type: "kmip.RequestHeader",
//     "payloads.GetRequestPayload"; ttlv.Value and ttlv.Struct are TNamed "ttlv.Value" /
//     TNamed "ttlv.Struct" and have no tdef;
//   - the fields of a struct, in the schema and in VStruct, are the entries of
//     ttlv.VerifPlan(T) that are not Skipped (exported and not tagged "-"), in declaration order;
//   - interface types are named "kmip.OperationPayload", "kmip.Object" and "any".
package gv

import (
	"encoding/json"
	"path/filepath"
	"os"
	"fmt"
	"math/big"
	"reflect"
	"sort"
	"time"

	kmip "github.com/ovh/kmip-go"
	_ "github.com/ovh/kmip-go/payloads" // registers the operation payloads
	"github.com/ovh/kmip-go/ttlv"
)

var (
	tTime     = reflect.TypeFor[time.Time]()
	tDuration = reflect.TypeFor[time.Duration]()
	tBigInt   = reflect.TypeFor[big.Int]()
	tValue    = reflect.TypeFor[ttlv.Value]()
	tStruct   = reflect.TypeFor[ttlv.Struct]()
	tPayload  = reflect.TypeFor[kmip.OperationPayload]()
	tObject   = reflect.TypeFor[kmip.Object]()
	tAny      = reflect.TypeFor[any]()
	tUnknown  = reflect.TypeFor[kmip.UnknownPayload]()
	tTagEnc   = reflect.TypeFor[ttlv.TagEncodable]()
	tTagDec   = reflect.TypeFor[ttlv.TagDecodable]()
)

// ErrInexpressible is returned (or carried by the panic of CoqTy) for a Go type that has no
// counterpart in Schema.ty.
type ErrInexpressible struct{ Type reflect.Type }

func (e ErrInexpressible) Error() string {
	return fmt.Sprintf("gv: type %s (kind %s) cannot be expressed as a Schema.ty", e.Type, e.Type.Kind())
}

// TypeName is the schema name of a struct type ("pkg.Type").
func TypeName(t reflect.Type) string { return t.String() }

// IsTree reports the two generic tree types that are values of their own (VTree / VList of VTree).
func IsTree(t reflect.Type) bool { return t == tValue || t == tStruct }

// ScalarKind returns the Schema.kind term of a type the codec treats as a scalar ("" if none).
func ScalarKind(t reflect.Type) string {
	// same precedence as ttlv.encodeFunc / decodeFunc: enum, bitmask, the three special
	// types, then the Go kind.
	if ttlv.VerifIsEnum(t) {
		return fmt.Sprintf("(KEnum %d)", ttlv.VerifTagForType(t))
	}
	if ttlv.VerifIsBitmask(t) {
		return fmt.Sprintf("(KMask %d)", ttlv.VerifTagForType(t))
	}
	switch t {
	case tDuration:
		return "KDuration"
	case tTime:
		return "KTime"
	case tBigInt:
		return "KBigInt"
	}
	switch t.Kind() {
	case reflect.Int8:
		return "KInt8"
	case reflect.Int16:
		return "KInt16"
	case reflect.Int32:
		return "KInt32"
	case reflect.Int64:
		return "KInt64"
	case reflect.Uint8:
		return "KUint8"
	case reflect.Uint16:
		return "KUint16"
	case reflect.Uint32:
		return "KUint32"
	case reflect.Uint64:
		return "KUint64"
	case reflect.Bool:
		return "KBool"
	case reflect.String:
		return "KString"
	case reflect.Slice:
		if t.Elem().Kind() == reflect.Uint8 && t != tStruct {
			return "KBytes"
		}
	}
	return ""
}

// IfaceName is the schema name of an interface type ("" if it is not one of the three known).
func IfaceName(t reflect.Type) string {
	switch t {
	case tPayload:
		return "kmip.OperationPayload"
	case tObject:
		return "kmip.Object"
	case tAny:
		return "any"
	}
	return ""
}

// TyOf prints a Go type as a Gallina term of type Schema.ty.
func TyOf(t reflect.Type) (string, error) {
	if t == tValue {
		return `TNamed "ttlv.Value"`, nil
	}
	if t == tStruct {
		return `TNamed "ttlv.Struct"`, nil
	}
	if k := ScalarKind(t); k != "" {
		return "TScalar " + k, nil
	}
	switch t.Kind() {
	case reflect.Pointer:
		s, err := TyOf(t.Elem())
		if err != nil {
			return "", err
		}
		return "TPtr (" + s + ")", nil
	case reflect.Slice:
		s, err := TyOf(t.Elem())
		if err != nil {
			return "", err
		}
		return "TSlice (" + s + ")", nil
	case reflect.Struct:
		if t.Name() == "" {
			return "", ErrInexpressible{t}
		}
		return fmt.Sprintf("TNamed %q", TypeName(t)), nil
	case reflect.Interface:
		if n := IfaceName(t); n != "" {
			return fmt.Sprintf("TIface %q", n), nil
		}
	}
	return "", ErrInexpressible{t}
}

// CoqTy is TyOf for callers that know the type is expressible; it panics with
// ErrInexpressible otherwise.
func CoqTy(t reflect.Type) string {
	s, err := TyOf(t)
	if err != nil {
		panic(err)
	}
	return s
}

// Field is one entry of a struct's plan: the reflect field and what the library's own
// getFieldInfo / getFieldTag say about it.
type Field struct {
	SF   reflect.StructField
	Plan ttlv.VerifField
}

// PinRange is the version range of one gated element in the PINNED table
// (/verif/pinned/versions.json): what the specification says, independent of the annotations
// of the tree under test.
type PinRange struct {
	Start, End []int // nil = open
}

// Pinned, when loaded (LoadPinned), decides which elements a generated message carries at a
// version: generation must not follow the annotations of the tree under test, or a wrong
// annotation would silently shape the inputs after itself.
var Pinned map[string]PinRange

// LoadPinned reads <verif>/pinned/versions.json.
func LoadPinned(verif string) error {
	b, err := os.ReadFile(filepath.Join(verif, "pinned", "versions.json"))
	if err != nil {
		return err
	}
	var f struct {
		Fields []struct {
			Struct string `json:"struct"`
			Field  string `json:"field"`
			Start  []int  `json:"start"`
			End    []int  `json:"end"`
		} `json:"fields"`
	}
	if err := json.Unmarshal(b, &f); err != nil {
		return err
	}
	m := map[string]PinRange{}
	for _, p := range f.Fields {
		m[p.Struct+"."+p.Field] = PinRange{p.Start, p.End}
	}
	Pinned = m
	return nil
}

// InRangeOf is InRange decided by the pinned table when it is loaded (an element the table
// does not list exists at every version), by the library's annotation otherwise.
func (f Field) InRangeOf(owner reflect.Type, major, minor int) bool {
	if Pinned == nil {
		return f.InRange(major, minor)
	}
	pr, ok := Pinned[owner.String()+"."+f.SF.Name]
	if !ok {
		return true
	}
	less := func(a []int, c, d int) bool { return a[0] < c || (a[0] == c && a[1] < d) }
	if pr.Start != nil && less([]int{major, minor}, pr.Start[0], pr.Start[1]) {
		return false
	}
	if pr.End != nil && less(pr.End, major, minor) {
		return false
	}
	return true
}

// InRange reports whether the field's version range contains (major, minor); a field
// without range is in range at every version.
func (f Field) InRange(major, minor int) bool {
	p := f.Plan
	if !p.HasRange {
		return true
	}
	cmp := func(a, b, c, d int) int {
		if a != c {
			if a < c {
				return -1
			}
			return 1
		}
		if b != d {
			if b < d {
				return -1
			}
			return 1
		}
		return 0
	}
	if p.StartSet && cmp(p.StartMajor, p.StartMinor, major, minor) > 0 {
		return false
	}
	if p.EndSet && cmp(p.EndMajor, p.EndMinor, major, minor) < 0 {
		return false
	}
	return true
}

// Fields returns the schema fields of a struct type: the non-skipped entries of
// ttlv.VerifPlan in declaration order. It is the single definition of "the fields of T"
// shared by the dumper, the printer, the generator and the coverage check.
func Fields(t reflect.Type) []Field {
	var out []Field
	for _, p := range ttlv.VerifPlan(t) {
		if p.Skipped {
			continue
		}
		out = append(out, Field{SF: t.Field(p.Index), Plan: p})
	}
	return out
}

// CustomEnc / CustomDec: T or *T implements ttlv.TagEncodable / ttlv.TagDecodable.
func CustomEnc(t reflect.Type) bool {
	return t.Implements(tTagEnc) || reflect.PointerTo(t).Implements(tTagEnc)
}
func CustomDec(t reflect.Type) bool {
	return t.Implements(tTagDec) || reflect.PointerTo(t).Implements(tTagDec)
}

// Universe is everything reachable from the two message types.
type Universe struct {
	Structs  []reflect.Type                     // sorted by TypeName
	Ops      []kmip.Operation                   // registered operations, sorted
	OpTypes  map[kmip.Operation][2]reflect.Type // request, response payload struct types
	Attrs    []kmip.AttributeName               // registered attribute names, sorted
	AttrType map[kmip.AttributeName]reflect.Type
	Objs     []kmip.ObjectType // registered object types, sorted
	ObjType  map[kmip.ObjectType]reflect.Type
	Payloads []reflect.Type // every registered payload struct type (both directions), sorted by name, without duplicates
}

// Reach computes the universe; it fails on a type that cannot be expressed.
func Reach() (*Universe, error) {
	u := &Universe{OpTypes: kmip.VerifOperationRegistry(), AttrType: kmip.VerifAttrTypes(), ObjType: kmip.VerifObjectTypes()}
	for op := range u.OpTypes {
		u.Ops = append(u.Ops, op)
	}
	sort.Slice(u.Ops, func(i, j int) bool { return u.Ops[i] < u.Ops[j] })
	for a := range u.AttrType {
		u.Attrs = append(u.Attrs, a)
	}
	sort.Slice(u.Attrs, func(i, j int) bool { return u.Attrs[i] < u.Attrs[j] })
	for o := range u.ObjType {
		u.Objs = append(u.Objs, o)
	}
	sort.Slice(u.Objs, func(i, j int) bool { return u.Objs[i] < u.Objs[j] })

	seen := map[reflect.Type]bool{}
	var firstErr error
	var visit func(t reflect.Type)
	visit = func(t reflect.Type) {
		if firstErr != nil || IsTree(t) || ScalarKind(t) != "" {
			return
		}
		switch t.Kind() {
		case reflect.Pointer, reflect.Slice:
			visit(t.Elem())
		case reflect.Struct:
			if seen[t] {
				return
			}
			if _, err := TyOf(t); err != nil {
				firstErr = err
				return
			}
			seen[t] = true
			for _, f := range Fields(t) {
				visit(f.SF.Type)
			}
		case reflect.Interface:
			switch t {
			case tPayload:
				for _, op := range u.Ops {
					visit(u.OpTypes[op][0])
					visit(u.OpTypes[op][1])
				}
				visit(tUnknown)
			case tObject:
				for _, o := range u.Objs {
					visit(u.ObjType[o])
				}
			case tAny:
				for _, a := range u.Attrs {
					visit(u.AttrType[a])
				}
			default:
				firstErr = ErrInexpressible{t}
			}
		default:
			firstErr = ErrInexpressible{t}
		}
	}
	visit(reflect.TypeFor[kmip.RequestMessage]())
	visit(reflect.TypeFor[kmip.ResponseMessage]())
	if firstErr != nil {
		return nil, firstErr
	}
	for t := range seen {
		u.Structs = append(u.Structs, t)
	}
	sort.Slice(u.Structs, func(i, j int) bool { return TypeName(u.Structs[i]) < TypeName(u.Structs[j]) })
	// duplicate names would make find_tdef ambiguous
	for i := 1; i < len(u.Structs); i++ {
		if TypeName(u.Structs[i]) == TypeName(u.Structs[i-1]) {
			return nil, fmt.Errorf("gv: two distinct struct types are both named %s", TypeName(u.Structs[i]))
		}
	}
	pl := map[reflect.Type]bool{}
	for _, op := range u.Ops {
		for _, t := range u.OpTypes[op] {
			if t.Kind() != reflect.Struct {
				return nil, fmt.Errorf("gv: payload type %s of operation %#x is not a struct", t, uint32(op))
			}
			if !pl[t] {
				pl[t] = true
				u.Payloads = append(u.Payloads, t)
			}
		}
	}
	sort.Slice(u.Payloads, func(i, j int) bool { return TypeName(u.Payloads[i]) < TypeName(u.Payloads[j]) })
	return u, nil
}

var universe *Universe

// U returns the cached universe (panics if it cannot be computed).
func U() *Universe {
	if universe == nil {
		u, err := Reach()
		if err != nil {
			panic(err)
		}
		universe = u
	}
	return universe
}
