package gv

// Value printer: Go value -> Gallina term of type Schema.value.
//
// Conventions (Schema.v):
//   - every integer kind, enumerations, bit masks, big.Int, time.Time (Unix seconds) and
//     time.Duration (whole seconds) print as VInt z, negative numbers parenthesised;
//     a time with a sub-second part or a duration that is not a whole number of seconds is an
//     error (the model cannot represent it);  the Go zero time.Time{} prints as
//     VInt (-62135596800), its Unix() value;
//   - bool -> VBool; string and []byte -> VStr (byte list, dense hb literal of Cases.v);
//     a nil []byte is VStr (ub 0 []), a non-nil empty one VEmptyBytes (NormalizeTerm identifies them);
//   - nil pointer and nil interface -> VNil; pointer -> VPtr (v);
//   - slices -> VList [..], nil and empty both VList [];
//   - struct -> VStruct "pkg.Type" [one value per schema field, see Fields];
//   - interface -> VIface (dynamic type as a ty term) (value);
//   - ttlv.Value -> VTree (item) (enumerations inside a generic tree have real tag 0);
//     ttlv.Struct -> VList [VTree ..];
//   - kmip.UnknownPayload -> VStruct "kmip.UnknownPayload" [VInt opcode; VList trees]: the
//     unexported opType (tagged "-", hence NOT in t_fields) is printed FIRST because the value
//     of Operation() is part of what a round trip must preserve; it is the only struct whose
//     VStruct has one more component than its tdef has fields.

import (
	"fmt"
	"math/big"
	"reflect"
	"strings"
	"time"

	kmip "github.com/ovh/kmip-go"
	"github.com/ovh/kmip-go/ttlv"

	"verifharness/internal/h"
	"verifharness/internal/tv"
)

func zbig(v *big.Int) string { return h.BigZ(v) }

func coqTree(v ttlv.Value) (string, error) {
	n, ok := tv.FromValue(v)
	if !ok {
		return "", fmt.Errorf("gv: ttlv.Value (tag %#x) holds a %T, which is not a TTLV value", v.Tag, v.Value)
	}
	return "VTree (" + tv.CoqItem(n) + ")", nil
}

// CoqValue prints v as a term of type Schema.value.
func CoqValue(v reflect.Value) (string, error) {
	if !v.IsValid() {
		return "VNil", nil
	}
	t := v.Type()
	switch t {
	case tValue:
		return coqTree(v.Interface().(ttlv.Value))
	case tStruct:
		s := v.Interface().(ttlv.Struct)
		el := make([]string, len(s))
		for i, x := range s {
			e, err := coqTree(x)
			if err != nil {
				return "", err
			}
			el[i] = e
		}
		return "VList " + h.List(el), nil
	case tTime:
		tm := v.Interface().(time.Time)
		if tm.Nanosecond() != 0 {
			return "", fmt.Errorf("gv: time %v is not a whole number of seconds", tm)
		}
		return "VInt " + h.Z(tm.Unix()), nil
	case tDuration:
		d := time.Duration(v.Int())
		if d%time.Second != 0 {
			return "", fmt.Errorf("gv: duration %v is not a whole number of seconds", d)
		}
		return "VInt " + h.Z(int64(d/time.Second)), nil
	case tBigInt:
		b := v.Interface().(big.Int)
		return "VInt " + zbig(&b), nil
	case tUnknown:
		up := v.Interface().(kmip.UnknownPayload)
		fields, err := CoqValue(v.FieldByName("Fields"))
		if err != nil {
			return "", err
		}
		return fmt.Sprintf("VStruct %q [VInt %d; %s]", TypeName(t), uint32(up.Operation()), fields), nil
	}
	switch t.Kind() {
	case reflect.Int8, reflect.Int16, reflect.Int32, reflect.Int64:
		return "VInt " + h.Z(v.Int()), nil
	case reflect.Uint8, reflect.Uint16, reflect.Uint32, reflect.Uint64:
		return fmt.Sprintf("VInt %d", v.Uint()), nil
	case reflect.Bool:
		return "VBool " + h.Bool(v.Bool()), nil
	case reflect.String:
		return "VStr " + h.HexBytes([]byte(v.String())), nil
	case reflect.Slice:
		if t.Elem().Kind() == reflect.Uint8 {
			if !v.IsNil() && v.Len() == 0 {
				// a non-nil empty []byte (what decoding a present, empty Byte String yields): the
				// encoder's omitempty test tells it from nil
				return "VEmptyBytes", nil
			}
			return "VStr " + h.HexBytes(v.Bytes()), nil
		}
		el := make([]string, v.Len())
		for i := range el {
			e, err := CoqValue(v.Index(i))
			if err != nil {
				return "", err
			}
			el[i] = e
		}
		return "VList " + h.List(el), nil
	case reflect.Pointer:
		if v.IsNil() {
			return "VNil", nil
		}
		e, err := CoqValue(v.Elem())
		if err != nil {
			return "", err
		}
		return "VPtr (" + e + ")", nil
	case reflect.Interface:
		if v.IsNil() {
			return "VNil", nil
		}
		dyn, err := TyOf(v.Elem().Type())
		if err != nil {
			return "", err
		}
		e, err := CoqValue(v.Elem())
		if err != nil {
			return "", err
		}
		return "VIface (" + dyn + ") (" + e + ")", nil
	case reflect.Struct:
		if t.Name() == "" {
			return "", ErrInexpressible{t}
		}
		var el []string
		for _, f := range Fields(t) {
			e, err := CoqValue(v.Field(f.Plan.Index))
			if err != nil {
				return "", fmt.Errorf("%s.%s: %w", TypeName(t), f.SF.Name, err)
			}
			el = append(el, e)
		}
		return fmt.Sprintf("VStruct %q %s", TypeName(t), h.List(el)), nil
	}
	return "", ErrInexpressible{t}
}

// CoqValueOf is CoqValue(reflect.ValueOf(x)); for a message pass the struct (or a pointer to
// it, printed as VPtr).
func CoqValueOf(x any) (string, error) { return CoqValue(reflect.ValueOf(x)) }

// Equal compares two Go values as Schema.value terms (nil = empty, times by Unix seconds,
// big integers by value, no pointer identity).
func Equal(a, b any) (bool, error) {
	sa, err := CoqValueOf(a)
	if err != nil {
		return false, err
	}
	sb, err := CoqValueOf(b)
	if err != nil {
		return false, err
	}
	return NormalizeTerm(sa) == NormalizeTerm(sb), nil
}

// Diff returns a short description of the first difference between the value terms of a and
// b ("" if equal): the path of struct fields / indices leading to it.
func Diff(a, b reflect.Value) string {
	return diff(a, b, "")
}

func diff(a, b reflect.Value, path string) string {
	sa, ea := CoqValue(a)
	sb, eb := CoqValue(b)
	if ea != nil || eb != nil {
		return fmt.Sprintf("%s: unprintable (%v / %v)", path, ea, eb)
	}
	if sa == sb {
		return ""
	}
	if !a.IsValid() || !b.IsValid() || a.Type() != b.Type() {
		return fmt.Sprintf("%s: %s vs %s", path, short(sa), short(sb))
	}
	t := a.Type()
	switch {
	case IsTree(t) || ScalarKind(t) != "" || t == tUnknown:
		return fmt.Sprintf("%s: %s vs %s", path, short(sa), short(sb))
	case t.Kind() == reflect.Struct:
		for _, f := range Fields(t) {
			if d := diff(a.Field(f.Plan.Index), b.Field(f.Plan.Index), path+"."+f.SF.Name); d != "" {
				return d
			}
		}
	case t.Kind() == reflect.Slice:
		if a.Len() != b.Len() {
			return fmt.Sprintf("%s: length %d vs %d", path, a.Len(), b.Len())
		}
		for i := 0; i < a.Len(); i++ {
			if d := diff(a.Index(i), b.Index(i), fmt.Sprintf("%s[%d]", path, i)); d != "" {
				return d
			}
		}
	case t.Kind() == reflect.Pointer || t.Kind() == reflect.Interface:
		if a.IsNil() != b.IsNil() {
			return fmt.Sprintf("%s: %s vs %s", path, short(sa), short(sb))
		}
		if t.Kind() == reflect.Interface && a.Elem().Type() != b.Elem().Type() {
			return fmt.Sprintf("%s: dynamic type %s vs %s", path, a.Elem().Type(), b.Elem().Type())
		}
		return diff(a.Elem(), b.Elem(), path)
	}
	return fmt.Sprintf("%s: %s vs %s", path, short(sa), short(sb))
}

func short(s string) string {
	s = strings.ReplaceAll(s, "\n", " ")
	if len(s) > 80 {
		return s[:77] + "..."
	}
	return s
}

// NormalizeTerm identifies nil and empty byte strings in a printed value term (content equality).
func NormalizeTerm(s string) string { return strings.ReplaceAll(s, "VEmptyBytes", "VStr (ub 0 [])") }
