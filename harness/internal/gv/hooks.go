package gv

// Per-type hooks of the generator: the unions. Each hook lets the reflective walk populate
// every field it does not name itself (fillStruct with a skip list), so fields added later to
// these structs are still generated.

import (
	"fmt"
	"reflect"
	"sync"

	kmip "github.com/ovh/kmip-go"
	"github.com/ovh/kmip-go/ttlv"

	"verifharness/internal/tv"
)

type hook func(g *gen, v reflect.Value, tag int, req bool)

var hooks map[reflect.Type]hook
var postHooks map[reflect.Type]func(g *gen, v reflect.Value)

var hooksOnce sync.Once

// initHooks builds the hook tables on first use (not in init: a universe that cannot be
// expressed must surface as an error of the dumper, not as a panic at program start).
func initHooks() { hooksOnce.Do(buildHooks) }

func buildHooks() {
	hooks = map[reflect.Type]hook{
		reflect.TypeFor[kmip.RequestBatchItem]():  func(g *gen, v reflect.Value, _ int, _ bool) { g.requestItem(v, g.anyOp()) },
		reflect.TypeFor[kmip.ResponseBatchItem](): func(g *gen, v reflect.Value, _ int, _ bool) { g.responseItem(v, g.anyOp()) },
		reflect.TypeFor[kmip.Credential]():        func(g *gen, v reflect.Value, _ int, _ bool) { g.credential(v) },
		reflect.TypeFor[kmip.CredentialValue]():   func(g *gen, v reflect.Value, _ int, _ bool) { g.credentialValue(v, g.credType()) },
		reflect.TypeFor[kmip.KeyBlock]():          func(g *gen, v reflect.Value, _ int, _ bool) { g.keyBlock(v) },
		reflect.TypeFor[kmip.KeyValue]():          func(g *gen, v reflect.Value, _ int, _ bool) { g.keyValue(v, g.keyFormat(), KVPlain) },
		reflect.TypeFor[kmip.KeyMaterial]():       func(g *gen, v reflect.Value, _ int, _ bool) { g.keyMaterial(v, g.keyFormat()) },
		reflect.TypeFor[kmip.Attribute]():         func(g *gen, v reflect.Value, _ int, _ bool) { g.attribute(v) },
		reflect.TypeFor[kmip.UnknownPayload]():    func(g *gen, v reflect.Value, _ int, _ bool) { v.Set(reflect.ValueOf(*g.unknownPayload(unknownOps[0]))) },
	}
	postHooks = map[reflect.Type]func(g *gen, v reflect.Value){}
	// the Import request finds its object type in the attribute list; registered by type name
	// so that this package does not depend on the payloads package's identifiers more than needed
	for _, t := range U().Payloads {
		if hasObjectWithoutType(t) {
			postHooks[t] = func(g *gen, v reflect.Value) { g.objectTypeAttribute(v) }
		}
	}
}

// hasObjectWithoutType: payload structs with an Object but no ObjectType field carry the
// object type as an "Object Type" attribute (ImportRequestPayload).
func hasObjectWithoutType(t reflect.Type) bool {
	of, ok1 := t.FieldByName("Object")
	_, ok2 := t.FieldByName("ObjectType")
	af, ok3 := t.FieldByName("Attribute")
	return ok1 && of.Type == tObject && !ok2 && ok3 && af.Type == reflect.TypeFor[[]kmip.Attribute]()
}

// ------------------------------------------------------------------ batch items and payloads

// payload builds the payload of operation op in direction d: a pointer to the registered
// struct type, or an UnknownPayload for a code outside the registry.
func (g *gen) payload(op kmip.Operation, d dir) kmip.OperationPayload {
	ts, ok := U().OpTypes[op]
	if !ok {
		return g.unknownPayload(op)
	}
	p := reflect.New(ts[d])
	g.fill(p.Elem(), 0, true)
	pl := p.Interface().(kmip.OperationPayload)
	return pl
}

func (g *gen) unknownPayload(op kmip.Operation) *kmip.UnknownPayload {
	return kmip.NewUnknownPayload(op, g.treeStruct()...)
}

func (g *gen) requestItem(v reflect.Value, op kmip.Operation) {
	g.fillStruct(v, "Operation", "RequestPayload")
	pl := g.payload(op, dirReq)
	v.FieldByName("RequestPayload").Set(reflect.ValueOf(pl))
	v.FieldByName("Operation").Set(reflect.ValueOf(pl.Operation()))
	g.itemOptions(v)
}

func (g *gen) responseItem(v reflect.Value, op kmip.Operation) {
	g.fillStruct(v, "Operation", "ResponsePayload")
	opf := v.FieldByName("Operation")
	// a payload needs a non-zero operation to be decoded (and vice versa is free)
	if op != 0 && v.Type() != g.o.EmptyType && (g.o.Ops != nil || g.present()) {
		pl := g.payload(op, dirResp)
		v.FieldByName("ResponsePayload").Set(reflect.ValueOf(pl))
		opf.Set(reflect.ValueOf(pl.Operation()))
		if g.o.NoKnownFindings {
			v.FieldByName("MessageExtension").SetZero()
		}
	} else {
		v.FieldByName("ResponsePayload").SetZero()
		if g.present() {
			opf.Set(reflect.ValueOf(op))
		} else {
			opf.SetZero()
		}
	}
	g.itemOptions(v)
	if g.o.NoKnownFindings && !v.FieldByName("ResponsePayload").IsNil() {
		v.FieldByName("MessageExtension").SetZero()
	}
}

func (g *gen) itemOptions(v reflect.Value) {
	ext := v.FieldByName("MessageExtension")
	if g.o.ExtAlways && ext.IsNil() {
		g.fill(ext, 0, true)
	}
	if g.o.ExtNever {
		ext.SetZero()
	}
	id := v.FieldByName("UniqueBatchItemID")
	if g.o.IDAlways && id.Len() == 0 {
		g.nonZeroScalar(id)
	}
	if g.o.IDNever {
		id.SetZero()
	}
}

// ------------------------------------------------------------------ objects

func (g *gen) object() kmip.Object {
	u := U()
	ot := g.o.Object
	t, ok := u.ObjType[ot]
	if !ok {
		ot = u.Objs[g.r.Intn(len(u.Objs))]
		t = u.ObjType[ot]
	}
	p := reflect.New(t)
	g.fill(p.Elem(), 0, true)
	return p.Interface().(kmip.Object)
}

// objectTypeAttribute (ImportRequestPayload): the decoder instantiates the object from the
// first "Object Type" attribute whose value is a kmip.ObjectType; make that attribute exist
// and agree with the object.
func (g *gen) objectTypeAttribute(v reflect.Value) {
	obj, _ := v.FieldByName("Object").Interface().(kmip.Object)
	if obj == nil {
		return
	}
	af := v.FieldByName("Attribute")
	attrs := af.Interface().([]kmip.Attribute)
	found := false
	for i := range attrs {
		if attrs[i].AttributeName == kmip.AttributeNameObjectType {
			attrs[i].AttributeValue = obj.ObjectType()
			found = true
		}
	}
	if !found {
		at := kmip.Attribute{AttributeName: kmip.AttributeNameObjectType, AttributeValue: obj.ObjectType()}
		pos := g.r.Intn(len(attrs) + 1)
		attrs = append(attrs[:pos:pos], append([]kmip.Attribute{at}, attrs[pos:]...)...)
	}
	af.Set(reflect.ValueOf(attrs))
	if g.o.NoKnownFindings {
		if f := v.FieldByName("KeyWrapType"); f.IsValid() {
			f.SetZero()
		}
	}
}

// ------------------------------------------------------------------ credentials

// CredentialTypes are the alternatives CredentialValue.decode knows.
var CredentialTypes = []kmip.CredentialType{kmip.CredentialTypeUsernameAndPassword, kmip.CredentialTypeDevice, kmip.CredentialTypeAttestation}

var credSlot = map[kmip.CredentialType]string{
	kmip.CredentialTypeUsernameAndPassword: "UserPassword",
	kmip.CredentialTypeDevice:              "Device",
	kmip.CredentialTypeAttestation:         "Attestation",
}

func (g *gen) credType() kmip.CredentialType {
	if _, ok := credSlot[g.o.Credential]; ok {
		return g.o.Credential
	}
	return CredentialTypes[g.r.Intn(len(CredentialTypes))]
}

func (g *gen) credential(v reflect.Value) {
	g.fillStruct(v, "CredentialType", "CredentialValue")
	ct := g.credType()
	v.FieldByName("CredentialType").Set(reflect.ValueOf(ct))
	g.credentialValue(v.FieldByName("CredentialValue"), ct)
}

func (g *gen) credentialValue(v reflect.Value, ct kmip.CredentialType) {
	v.SetZero()
	g.fill(v.FieldByName(credSlot[ct]), 0, true)
}

// ------------------------------------------------------------------ key blocks

// KeyFormats are the formats KeyMaterial.decode knows, with the slot each one selects.
var KeyFormats = []kmip.KeyFormatType{
	kmip.KeyFormatTypeRaw, kmip.KeyFormatTypeOpaque, kmip.KeyFormatTypePKCS_1, kmip.KeyFormatTypePKCS_8,
	kmip.KeyFormatTypeX_509, kmip.KeyFormatTypeECPrivateKey,
	kmip.KeyFormatTypeTransparentSymmetricKey,
	kmip.KeyFormatTypeTransparentRSAPrivateKey, kmip.KeyFormatTypeTransparentRSAPublicKey,
	kmip.KeyFormatTypeTransparentECDSAPrivateKey, kmip.KeyFormatTypeTransparentECDSAPublicKey,
	kmip.KeyFormatTypeTransparentECPrivateKey, kmip.KeyFormatTypeTransparentECPublicKey,
}

// KeySlot is the KeyMaterial field selected by a key format ("" for a format the decoder rejects).
func KeySlot(f kmip.KeyFormatType) string {
	switch f {
	case kmip.KeyFormatTypeRaw, kmip.KeyFormatTypeOpaque, kmip.KeyFormatTypePKCS_1, kmip.KeyFormatTypePKCS_8,
		kmip.KeyFormatTypeX_509, kmip.KeyFormatTypeECPrivateKey:
		return "Bytes"
	case kmip.KeyFormatTypeTransparentSymmetricKey:
		return "TransparentSymmetricKey"
	case kmip.KeyFormatTypeTransparentRSAPrivateKey:
		return "TransparentRSAPrivateKey"
	case kmip.KeyFormatTypeTransparentRSAPublicKey:
		return "TransparentRSAPublicKey"
	case kmip.KeyFormatTypeTransparentECDSAPrivateKey:
		return "TransparentECDSAPrivateKey"
	case kmip.KeyFormatTypeTransparentECDSAPublicKey:
		return "TransparentECDSAPublicKey"
	case kmip.KeyFormatTypeTransparentECPrivateKey:
		return "TransparentECPrivateKey"
	case kmip.KeyFormatTypeTransparentECPublicKey:
		return "TransparentECPublicKey"
	}
	return ""
}

func (g *gen) keyFormat() kmip.KeyFormatType {
	if g.kfmt != 0 {
		return g.kfmt
	}
	if KeySlot(g.o.KeyFormat) != "" {
		return g.o.KeyFormat
	}
	return KeyFormats[g.r.Intn(len(KeyFormats))]
}

func (g *gen) keyBlock(v reflect.Value) {
	g.fillStruct(v, "KeyFormatType", "KeyValue")
	mode := g.o.KeyValue
	if v.Type() == g.o.EmptyType {
		mode = KVAbsent
	}
	if mode == KVRandom {
		switch g.o.Fill {
		case FillMax:
			mode = KVPlain
		case FillMin:
			mode = KVAbsent
		default:
			mode = []KeyValueMode{KVPlain, KVPlain, KVPlain, KVPlain, KVWrapped, KVWrapped, KVAbsent, KVEmpty}[g.r.Intn(8)]
		}
	}
	f := g.keyFormat()
	if g.o.KeyFormat == 0 && mode != KVPlain && mode != KVEmpty && g.r.Chance(1, 4) {
		// without plain key material any format value is carried
		f = kmip.KeyFormatType(g.enum(reflect.TypeFor[kmip.KeyFormatType]()))
	}
	v.FieldByName("KeyFormatType").Set(reflect.ValueOf(f))
	kv := v.FieldByName("KeyValue")
	if mode == KVAbsent {
		kv.SetZero()
		return
	}
	p := reflect.New(kv.Type().Elem())
	g.keyValue(p.Elem(), f, mode)
	kv.Set(p)
}

func (g *gen) keyValue(v reflect.Value, f kmip.KeyFormatType, mode KeyValueMode) {
	v.SetZero()
	if mode == KVWrapped {
		b := tv.GenBytes(g.r)
		v.FieldByName("Wrapped").Set(reflect.ValueOf(&b))
		return
	}
	plain := v.FieldByName("Plain")
	p := reflect.New(plain.Type().Elem())
	saved := g.kfmt
	g.kfmt = f
	if mode == KVEmpty {
		g.fillStruct(p.Elem(), "KeyMaterial")
	} else {
		g.fillStruct(p.Elem())
	}
	g.kfmt = saved
	plain.Set(p)
}

func (g *gen) keyMaterial(v reflect.Value, f kmip.KeyFormatType) {
	v.SetZero()
	slot := KeySlot(f)
	if slot == "" {
		panic(fmt.Errorf("gv: key format %#x selects no key material slot", uint32(f)))
	}
	saved := g.kfmt
	g.kfmt = 0 // key blocks nested below (none today) choose their own format
	g.fill(v.FieldByName(slot), 0, true)
	g.kfmt = saved
}

// ------------------------------------------------------------------ attributes

var customNames = []kmip.AttributeName{"x-custom", "y-custom", "x-", "y-é", "x-Object Type", "x-ID"}
var unknownNames = []kmip.AttributeName{"Unknown Attribute", "", "unique identifier", "X-upper", "Name ", "\x00"}

// attrName draws an attribute name: queued, registered (3/4), custom or unknown.
func (g *gen) attrName() kmip.AttributeName {
	for len(g.attrs) > 0 {
		n := g.attrs[0]
		g.attrs = g.attrs[1:]
		if !g.o.TextSafe || textSafe(string(n)) {
			return n
		}
	}
	return g.randomAttrName()
}

func (g *gen) randomAttrName() kmip.AttributeName {
	if g.o.AttrDefault != "" {
		return g.o.AttrDefault
	}
	if g.o.TextSafe {
		for {
			if n := g.drawAttrName(); textSafe(string(n)) {
				return n
			}
		}
	}
	return g.drawAttrName()
}

func (g *gen) drawAttrName() kmip.AttributeName {
	switch k := g.r.Intn(8); {
	case k < 6:
		return kmip.AllAttributeNames[g.r.Intn(len(kmip.AllAttributeNames))]
	case k == 6:
		return customNames[g.r.Intn(len(customNames))]
	default:
		return unknownNames[g.r.Intn(len(unknownNames))]
	}
}

// attrValue builds the value the decoder reconstructs for an attribute of that name: a
// value of the registered type, or a generic tree tagged AttributeValue.
func (g *gen) attrValue(name kmip.AttributeName) (kmip.AttributeName, any) {
	t, ok := U().AttrType[name]
	if name.IsCustom() || !ok {
		return name, g.treeValue(kmip.TagAttributeValue)
	}
	v := reflect.New(t).Elem()
	g.fill(v, kmip.TagAttributeValue, false)
	return name, v.Interface()
}

func (g *gen) attribute(v reflect.Value) {
	g.fillStruct(v, "AttributeName", "AttributeValue")
	name, val := g.attrValue(g.attrName())
	v.FieldByName("AttributeName").Set(reflect.ValueOf(name))
	v.FieldByName("AttributeValue").Set(reflect.ValueOf(val))
}

// AttrKind classifies an attribute name the way newAttribute does.
func AttrKind(name kmip.AttributeName) string {
	if name.IsCustom() {
		return "custom"
	}
	if _, ok := U().AttrType[name]; ok {
		return "registered"
	}
	return "unknown"
}

var _ = ttlv.Value{}
