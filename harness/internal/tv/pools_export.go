package tv

// Read-only access to the boundary pools for generators in other packages (harness/internal/gv
// sweeps them deterministically). Copies: callers cannot alter the pools.

func Int32Pool() []int64 { return append([]int64{}, int32Pool...) }
func Int64Pool() []int64 { return append([]int64{}, int64Pool...) }
func U32Pool() []int64   { return append([]int64{}, u32Pool...) }
func TextPool() []string { return append([]string{}, textPool...) }
