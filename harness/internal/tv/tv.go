// Package tv: generic TTLV value trees shared by the codec drivers: generation from
// boundary pools, conversion to/from ttlv.Value and to Coq terms, an independent strict
// TTLV parser and an independent generator of well-formed encodings (written from KMIP 1.4
// section 9.1, sharing no code with the library), and TTLV-aware mutators.
package tv

import (
	"encoding/binary"
	"errors"
	"fmt"
	"math/big"
	"strings"
	"time"

	"github.com/ovh/kmip-go/ttlv"

	"verifharness/internal/h"
)

const (
	KStruct = 1 + iota
	KInt
	KLong
	KBig
	KEnum
	KBool
	KText
	KBytes
	KDate
	KIntv
)

// Node is one TTLV item. I holds Integer/Long/Enum/Date(unix s)/Interval(s) values.
type Node struct {
	Tag  int
	Kind int
	I    int64
	Big  *big.Int
	B    bool
	S    []byte
	Kids []Node
}

var KindName = []string{"?", "Structure", "Integer", "LongInteger", "BigInteger", "Enumeration", "Boolean", "TextString", "ByteString", "DateTime", "Interval"}

var int32Pool = []int64{0, 1, -1, 2, 127, 128, -128, -129, 255, 256, 32767, 32768, -32768, 65535, 65536, 1<<31 - 1, -(1 << 31), 0x12345678, -0x12345678, 1 << 30}
var int64Pool = []int64{0, 1, -1, 255, 256, 1<<31 - 1, 1 << 31, -(1 << 31), -(1 << 31) - 1, 1<<32 - 1, 1 << 32, 1<<52 - 1, 1 << 52, 1<<52 + 1, -(1 << 52), -(1 << 52) - 1, -(1 << 52) + 1, 1<<53 + 1, 1<<63 - 1, -(1 << 63), -(1 << 63) + 1, 0x0123456789abcdef}
var u32Pool = []int64{0, 1, 2, 3, 255, 256, 65535, 65536, 1<<31 - 1, 1 << 31, 1<<31 + 1, 1<<32 - 1, 0x80000001, 0xdeadbeef}
var tagPool = []int{0x420001, 0x42002c, 0x42008e, 0x420008, 0x42000a, 0x42000b, 0x420020, 0x420057, 0x42005c, 0x420069, 0x42007b, 0x420094, 0x4200a0, 0x540001, 0x54ffff, 0x420123, 0x42ffff, 0x000001, 0xffffff, 0x010203, 0x800000}

func GenTag(r *h.Rand) int {
	if r.Chance(3, 4) {
		return tagPool[r.Intn(len(tagPool))]
	}
	return 1 + r.Intn(0xffffff)
}

// GenBig draws big integers around every byte / 8-byte boundary with both signs.
func GenBig(r *h.Rand) *big.Int {
	switch r.Intn(6) {
	case 0:
		return big.NewInt(int64Pool[r.Intn(len(int64Pool))])
	case 1: // +-2^k + d
		k := r.Intn(200)
		if r.Bool() {
			k = 8 * r.Intn(70)
			if r.Bool() {
				k--
			}
			if k < 0 {
				k = 0
			}
		}
		v := new(big.Int).Lsh(big.NewInt(1), uint(k))
		v.Add(v, big.NewInt(int64(r.Intn(3)-1)))
		if r.Bool() {
			v.Neg(v)
		}
		return v
	case 2: // random bytes of length 1..40
		b := r.Bytes(1 + r.Intn(40))
		v := new(big.Int).SetBytes(b)
		if r.Bool() {
			v.Neg(v)
		}
		return v
	case 3: // leading 0x00 / 0x80 / 0xff patterns
		n := 1 + r.Intn(24)
		b := r.Bytes(n)
		b[0] = []byte{0x00, 0x80, 0xff, 0x7f, 0x01}[r.Intn(5)]
		v := new(big.Int).SetBytes(b)
		if r.Bool() {
			v.Neg(v)
		}
		return v
	case 4:
		return big.NewInt(int64(r.Intn(512) - 256))
	default: // large (RSA sized)
		b := r.Bytes(64 + r.Intn(200))
		v := new(big.Int).SetBytes(b)
		if r.Chance(1, 4) {
			v.Neg(v)
		}
		return v
	}
}

var textPool = []string{"", "a", "abc", "1234567", "12345678", "123456789", "Hello World", "x-custom", "\x00", "a\x00b", "\x01\x1f", "<>&\"'", "é", "日本語", "\U0001f600", "\xff\xfe", "tab\there", "key\x7fone", "\x7f", "line\nbreak", "quote\"back\\slash", strings.Repeat("z", 15), strings.Repeat("y", 16), strings.Repeat("w", 17)}

func GenText(r *h.Rand) []byte {
	if r.Chance(3, 4) {
		return []byte(textPool[r.Intn(len(textPool))])
	}
	n := r.Intn(40)
	b := make([]byte, n)
	for i := range b {
		b[i] = byte(32 + r.Intn(95))
	}
	return b
}

func GenBytes(r *h.Rand) []byte {
	n := r.Intn(18)
	if r.Chance(1, 6) {
		n = r.Intn(70)
	}
	return r.Bytes(n)
}

// GenLeaf draws a scalar node of the given kind (0 = any scalar kind).
func GenLeaf(r *h.Rand, kind int) Node {
	if kind == 0 {
		kind = KInt + r.Intn(9)
	}
	n := Node{Tag: GenTag(r), Kind: kind}
	switch kind {
	case KInt:
		n.I = int32Pool[r.Intn(len(int32Pool))]
		if r.Chance(1, 4) {
			n.I = int64(int32(r.U64()))
		}
	case KLong, KDate:
		n.I = int64Pool[r.Intn(len(int64Pool))]
		if r.Chance(1, 4) {
			n.I = int64(r.U64())
		}
	case KBig:
		n.Big = GenBig(r)
	case KEnum, KIntv:
		n.I = u32Pool[r.Intn(len(u32Pool))]
		if r.Chance(1, 4) {
			n.I = int64(uint32(r.U64()))
		}
	case KBool:
		n.B = r.Bool()
	case KText:
		n.S = GenText(r)
	case KBytes:
		n.S = GenBytes(r)
	}
	return n
}

// Gen draws a tree of depth <= depth.
func Gen(r *h.Rand, depth int) Node {
	if depth <= 0 || r.Chance(2, 5) {
		return GenLeaf(r, 0)
	}
	n := Node{Tag: GenTag(r), Kind: KStruct}
	k := r.Intn(5)
	if r.Chance(1, 8) {
		k = r.Intn(12)
	}
	for i := 0; i < k; i++ {
		n.Kids = append(n.Kids, Gen(r, depth-1))
	}
	return n
}

// ToValue converts to the library's generic tree.
func ToValue(n Node) ttlv.Value {
	v := ttlv.Value{Tag: n.Tag}
	switch n.Kind {
	case KStruct:
		s := ttlv.Struct{}
		for _, k := range n.Kids {
			s = append(s, ToValue(k))
		}
		v.Value = s
	case KInt:
		v.Value = int32(n.I)
	case KLong:
		v.Value = n.I
	case KBig:
		v.Value = new(big.Int).Set(n.Big)
	case KEnum:
		v.Value = ttlv.Enum(uint32(n.I))
	case KBool:
		v.Value = n.B
	case KText:
		v.Value = string(n.S)
	case KBytes:
		v.Value = append([]byte{}, n.S...)
	case KDate:
		// a sub-second part (dropped by every encoding: whole seconds, truncated) on some instants
		v.Value = time.Unix(n.I, []int64{0, 0, 499999999, 500000000, 999999999}[uint64(n.I)%5])
	case KIntv:
		v.Value = time.Duration(n.I) * time.Second
	}
	return v
}

// FromValue converts the library's generic tree back (ok=false on an unexpected dynamic type).
func FromValue(v ttlv.Value) (Node, bool) {
	n := Node{Tag: v.Tag}
	switch x := v.Value.(type) {
	case ttlv.Struct:
		n.Kind = KStruct
		for _, f := range x {
			k, ok := FromValue(f)
			if !ok {
				return n, false
			}
			n.Kids = append(n.Kids, k)
		}
	case int32:
		n.Kind, n.I = KInt, int64(x)
	case int64:
		n.Kind, n.I = KLong, x
	case *big.Int:
		if x == nil {
			return n, false
		}
		n.Kind, n.Big = KBig, new(big.Int).Set(x)
	case ttlv.Enum:
		n.Kind, n.I = KEnum, int64(uint32(x))
	case bool:
		n.Kind, n.B = KBool, x
	case string:
		n.Kind, n.S = KText, []byte(x)
	case []byte:
		n.Kind, n.S = KBytes, append([]byte{}, x...)
	case time.Time:
		n.Kind, n.I = KDate, x.Unix()
	case time.Duration:
		n.Kind, n.I = KIntv, int64(x/time.Second)
		if x%time.Second != 0 {
			return n, false
		}
	default:
		return n, false
	}
	return n, true
}

func Equal(a, b Node) bool {
	if a.Tag != b.Tag || a.Kind != b.Kind {
		return false
	}
	switch a.Kind {
	case KStruct:
		if len(a.Kids) != len(b.Kids) {
			return false
		}
		for i := range a.Kids {
			if !Equal(a.Kids[i], b.Kids[i]) {
				return false
			}
		}
		return true
	case KBig:
		return a.Big.Cmp(b.Big) == 0
	case KBool:
		return a.B == b.B
	case KText, KBytes:
		return string(a.S) == string(b.S)
	default:
		return a.I == b.I
	}
}

func zbig(v *big.Int) string { return h.BigZ(v) }

// CoqItem prints the node as a term of type Wire.item (Enum real tag 0, as ttlv.Value writes it).
func CoqItem(n Node) string {
	switch n.Kind {
	case KStruct:
		ks := make([]string, len(n.Kids))
		for i, k := range n.Kids {
			ks[i] = CoqItem(k)
		}
		return fmt.Sprintf("IStruct %d %s", n.Tag, h.List(ks))
	case KInt:
		return fmt.Sprintf("IInt %d %s", n.Tag, h.Z(n.I))
	case KLong:
		return fmt.Sprintf("ILong %d %s", n.Tag, h.Z(n.I))
	case KBig:
		return fmt.Sprintf("IBig %d %s", n.Tag, zbig(n.Big))
	case KEnum:
		return fmt.Sprintf("IEnum %d 0 %s", n.Tag, h.Z(n.I))
	case KBool:
		return fmt.Sprintf("IBool %d %s", n.Tag, h.Bool(n.B))
	case KText:
		return fmt.Sprintf("IText %d %s", n.Tag, h.HexBytes(n.S))
	case KBytes:
		return fmt.Sprintf("IBytes %d %s", n.Tag, h.HexBytes(n.S))
	case KDate:
		return fmt.Sprintf("IDate %d %s", n.Tag, h.Z(n.I))
	case KIntv:
		return fmt.Sprintf("IIntv %d %s", n.Tag, h.Z(n.I))
	}
	return "IInt 0 0"
}

func (n Node) String() string {
	switch n.Kind {
	case KStruct:
		ks := make([]string, len(n.Kids))
		for i, k := range n.Kids {
			ks[i] = k.String()
		}
		return fmt.Sprintf("%06x:{%s}", n.Tag, strings.Join(ks, " "))
	case KBig:
		return fmt.Sprintf("%06x:big(%s)", n.Tag, n.Big.String())
	case KBool:
		return fmt.Sprintf("%06x:bool(%v)", n.Tag, n.B)
	case KText:
		return fmt.Sprintf("%06x:text(%q)", n.Tag, n.S)
	case KBytes:
		return fmt.Sprintf("%06x:bytes(%x)", n.Tag, n.S)
	default:
		return fmt.Sprintf("%06x:%s(%d)", n.Tag, KindName[n.Kind], n.I)
	}
}

// ------------------------------------------------------------------ independent parser

var ErrSpec = errors.New("not well-formed TTLV")

func specErr(format string, a ...any) error {
	return fmt.Errorf("%w: "+format, append([]any{ErrSpec}, a...)...)
}

// SpecParse is a strict parser of a sequence of TTLV items written from KMIP 1.4 9.1.1.
func SpecParse(b []byte) ([]Node, error) {
	var out []Node
	for len(b) > 0 {
		if len(b) < 8 {
			return nil, specErr("truncated header")
		}
		tag := int(b[0])<<16 | int(b[1])<<8 | int(b[2])
		ty := int(b[3])
		l := int(binary.BigEndian.Uint32(b[4:8]))
		pl := l
		if l%8 != 0 {
			pl = l + 8 - l%8
		}
		if len(b)-8 < pl {
			return nil, specErr("value truncated: need %d have %d", pl, len(b)-8)
		}
		val := b[8 : 8+l]
		for _, p := range b[8+l : 8+pl] {
			if p != 0 {
				return nil, specErr("non-zero padding")
			}
		}
		n := Node{Tag: tag, Kind: ty}
		switch ty {
		case KStruct:
			kids, err := SpecParse(val)
			if err != nil {
				return nil, err
			}
			n.Kids = kids
		case KInt:
			if l != 4 {
				return nil, specErr("Integer length %d", l)
			}
			n.I = int64(int32(binary.BigEndian.Uint32(val)))
		case KLong, KDate:
			if l != 8 {
				return nil, specErr("length %d", l)
			}
			n.I = int64(binary.BigEndian.Uint64(val))
		case KBig:
			if l == 0 || l%8 != 0 {
				return nil, specErr("BigInteger length %d", l)
			}
			v := new(big.Int).SetBytes(val)
			if val[0]&0x80 != 0 {
				v.Sub(v, new(big.Int).Lsh(big.NewInt(1), uint(8*l)))
			}
			n.Big = v
		case KEnum, KIntv:
			if l != 4 {
				return nil, specErr("length %d", l)
			}
			n.I = int64(binary.BigEndian.Uint32(val))
		case KBool:
			if l != 8 {
				return nil, specErr("Boolean length %d", l)
			}
			x := binary.BigEndian.Uint64(val)
			if x > 1 {
				return nil, specErr("Boolean value %d", x)
			}
			n.B = x == 1
		case KText, KBytes:
			n.S = append([]byte{}, val...)
		default:
			return nil, specErr("type %d", ty)
		}
		out = append(out, n)
		b = b[8+pl:]
	}
	return out, nil
}

// SpecGen is an independent generator of well-formed encodings of n. With r != nil it uses
// the freedom the specification leaves: big integers sign-extended by extra groups of 8 bytes.
func SpecGen(n Node, r *h.Rand) []byte {
	var val []byte
	switch n.Kind {
	case KStruct:
		for _, k := range n.Kids {
			val = append(val, SpecGen(k, r)...)
		}
	case KInt:
		val = binary.BigEndian.AppendUint32(nil, uint32(int32(n.I)))
	case KLong, KDate:
		val = binary.BigEndian.AppendUint64(nil, uint64(n.I))
	case KBig:
		// smallest k multiple of 8 with -2^(8k-1) <= v < 2^(8k-1)
		k := 8
		for {
			lim := new(big.Int).Lsh(big.NewInt(1), uint(8*k-1))
			neg := new(big.Int).Neg(lim)
			if n.Big.Cmp(lim) < 0 && n.Big.Cmp(neg) >= 0 {
				break
			}
			k += 8
		}
		if r != nil && r.Chance(1, 3) {
			k += 8 * (1 + r.Intn(2))
		}
		m := new(big.Int).Set(n.Big)
		if m.Sign() < 0 {
			m.Add(m, new(big.Int).Lsh(big.NewInt(1), uint(8*k)))
		}
		val = m.FillBytes(make([]byte, k))
	case KEnum, KIntv:
		val = binary.BigEndian.AppendUint32(nil, uint32(n.I))
	case KBool:
		val = make([]byte, 8)
		if n.B {
			val[7] = 1
		}
	case KText, KBytes:
		val = append([]byte{}, n.S...)
	}
	out := []byte{byte(n.Tag >> 16), byte(n.Tag >> 8), byte(n.Tag), byte(n.Kind)}
	out = binary.BigEndian.AppendUint32(out, uint32(len(val)))
	out = append(out, val...)
	for len(out)%8 != 0 {
		out = append(out, 0)
	}
	return out
}

// ------------------------------------------------------------------ mutators (malformed stream)

var MutNames = []string{"flip-type", "len-minus", "len-plus", "len-max", "truncate", "byte-flip", "pad-nonzero", "splice-child", "append-junk", "zero-tag", "set-len-small", "drop-tail8"}

// itemOffsets returns the byte offsets of every item header in a well-formed encoding (all nesting levels).
func itemOffsets(b []byte, base int, out *[]int) {
	for off := 0; off+8 <= len(b); {
		*out = append(*out, base+off)
		l := int(binary.BigEndian.Uint32(b[off+4 : off+8]))
		pl := l
		if l%8 != 0 {
			pl = l + 8 - l%8
		}
		if off+8+pl > len(b) {
			return
		}
		if b[off+3] == KStruct {
			itemOffsets(b[off+8:off+8+l], base+off+8, out)
		}
		off += 8 + pl
	}
}

// Mutate applies one TTLV-aware mutation to a copy of b and returns it with the mutation name.
func Mutate(r *h.Rand, b []byte) ([]byte, string) {
	m := append([]byte{}, b...)
	var offs []int
	itemOffsets(m, 0, &offs)
	if len(offs) == 0 {
		return append(m, r.Bytes(1+r.Intn(9))...), "append-junk"
	}
	o := offs[r.Intn(len(offs))]
	l := binary.BigEndian.Uint32(m[o+4 : o+8])
	k := r.Intn(len(MutNames))
	switch MutNames[k] {
	case "flip-type":
		m[o+3] = byte(r.Intn(13))
	case "len-minus":
		binary.BigEndian.PutUint32(m[o+4:o+8], l-uint32(1+r.Intn(9)))
	case "len-plus":
		binary.BigEndian.PutUint32(m[o+4:o+8], l+uint32(1+r.Intn(9)))
	case "len-max":
		binary.BigEndian.PutUint32(m[o+4:o+8], []uint32{0xffffffff, 0x7fffffff, 0x80000000, 0xfffffff8}[r.Intn(4)])
	case "truncate":
		m = m[:r.Intn(len(m))]
	case "byte-flip":
		i := r.Intn(len(m))
		m[i] ^= byte(1 << r.Intn(8))
	case "pad-nonzero":
		if l%8 != 0 && o+8+int(l) < len(m) {
			m[o+8+int(l)] = byte(1 + r.Intn(255))
		} else {
			m[o+3] = byte(r.Intn(13))
		}
	case "splice-child":
		// make a child claim more than its parent holds: grow the child's length only
		binary.BigEndian.PutUint32(m[o+4:o+8], l+8*uint32(1+r.Intn(4)))
	case "append-junk":
		m = append(m, r.Bytes(1+r.Intn(17))...)
	case "zero-tag":
		m[o], m[o+1], m[o+2] = 0, 0, 0
	case "set-len-small":
		binary.BigEndian.PutUint32(m[o+4:o+8], uint32(r.Intn(9)))
	case "drop-tail8":
		if len(m) >= 8 {
			m = m[:len(m)-8]
		}
	}
	return m, MutNames[k]
}

// ------------------------------------------------------------------ observation helpers

// Obs is the outcome class of a decode call.
type Obs struct {
	Class string // "ok", "err", "panic", "hang"
	Node  Node   // for ok
	Bad   bool   // ok but the result could not be projected on a Node
	Msg   string
}

// DecodeValue runs ttlv.UnmarshalTTLV(b, &ttlv.Value{}) under recover and a watchdog.
func DecodeValue(b []byte) Obs {
	ch := make(chan Obs, 1)
	go func() {
		defer func() {
			if r := recover(); r != nil {
				ch <- Obs{Class: "panic", Msg: fmt.Sprint(r)}
			}
		}()
		var v ttlv.Value
		if err := ttlv.UnmarshalTTLV(b, &v); err != nil {
			ch <- Obs{Class: "err", Msg: err.Error()}
			return
		}
		n, ok := FromValue(v)
		ch <- Obs{Class: "ok", Node: n, Bad: !ok}
	}()
	select {
	case o := <-ch:
		return o
	case <-time.After(20 * time.Second):
		return Obs{Class: "hang"}
	}
}

// CoqObsItem prints the observation as a term of type CodecRows.obs item.
func CoqObsItem(o Obs) string {
	switch o.Class {
	case "ok":
		return "OOk (" + CoqItem(o.Node) + ")"
	case "err":
		return "OErr"
	case "panic":
		return "OPanic"
	}
	return "OHang"
}
