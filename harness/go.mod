module verifharness

go 1.24.0

require github.com/ovh/kmip-go v0.0.0

replace github.com/ovh/kmip-go => /repo
